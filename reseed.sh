#!/bin/bash
# usage: reseed.sh <seed name> [check ...]   re-runs stored seeded change(s) against quick checks (default: the owning property)
# /repo must be clean.  Appends the outcome to seeded/<seed>/meta.json ("rechecks").  Evidence files are restored afterwards.
set -u
cd /verif
NAME=$1; shift
P=${NAME%%-*}
[ $# -eq 0 ] && set -- $P
[ -n "$(git -C /repo status --porcelain)" ] && { echo "needs a clean /repo"; exit 2; }
git -C /repo apply /verif/seeded/$NAME/patch.diff || { echo "patch does not apply"; exit 2; }
RES=""
for C in "$@"; do
  ./check $C --tier quick > seeded/$NAME/check_$C.log 2>&1; RC=$?
  RES="$RES $C:exit$RC"
  echo "$NAME check $C exit=$RC: $(grep -m1 -A1 VIOLATION seeded/$NAME/check_$C.log | tr '\n' ' ' | cut -c1-300)"
done
git -C /repo checkout -- .
git -C /verif checkout -- evidence
python3 - "$NAME" "$RES" <<'PY'
import sys, json
name, res = sys.argv[1:3]
p = f"/verif/seeded/{name}/meta.json"
m = json.load(open(p))
m.setdefault("rechecks", []).append(res.split())
json.dump(m, open(p, "w"), indent=1)
PY
