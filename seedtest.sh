#!/bin/bash
# usage: seedtest.sh <worktree dir> <seed name> <property> [more checks...]
# confirms a seeded change (tests pass with it, demo fails with it / passes without), stores it under
# /verif/seeded/<seed name>/, then applies it to /repo, runs the property's quick check and reverts.
set -u
WT=$1; NAME=$2; PROP=$3; shift 3
OUT=/verif/seeded/$NAME
mkdir -p $OUT
cd $WT || exit 2
git apply --check -R patch.diff 2>/dev/null || git apply patch.diff
DEMO=$(ls join/tests/seed_demo*.rs join_impl/tests/seed_demo*.rs 2>/dev/null | head -1)
T1=$(cargo test --workspace --offline --lib --test join --test join_async --test join_async_spawn --test join_spawn 2>&1 | grep -E "^test result" | awk '{p+=$4; f+=$6} END{print p" passed "f" failed"}')
D1=$(cargo test --offline -p $(echo $DEMO | cut -d/ -f1) --test $(basename $DEMO .rs) 2>&1 | grep -E "^test result" | tail -1)
git apply -R patch.diff
D0=$(cargo test --offline -p $(echo $DEMO | cut -d/ -f1) --test $(basename $DEMO .rs) 2>&1 | grep -E "^test result" | tail -1)
git apply patch.diff
cp patch.diff $OUT/patch.diff; mkdir -p $OUT/demo; cp $DEMO $OUT/demo/; cp meta.txt $OUT/meta.txt 2>/dev/null
echo "baseline with change: $T1"; echo "demo with change: $D1"; echo "demo without change: $D0"
cd /verif
git -C /repo apply $OUT/patch.diff || { echo "patch does not apply to /repo"; exit 2; }
RES=""
for P in $PROP "$@"; do
  ./check $P --tier quick > $OUT/check_$P.log 2>&1; RC=$?
  RES="$RES $P:exit$RC"
  echo "check $P exit=$RC: $(grep -m1 -A1 VIOLATION $OUT/check_$P.log | tr '\n' ' ' | cut -c1-400)"
done
git -C /repo checkout -- .
git -C /verif checkout -- evidence   # evidence is only ever committed from runs on the clean tree
python3 - "$NAME" "$PROP" "$T1" "$D1" "$D0" "$RES" <<'PY'
import sys, json
name, prop, t1, d1, d0, res = sys.argv[1:7]
meta = {"seed": name, "breaks_property": prop, "needs": open(f"/verif/seeded/{name}/meta.txt").read() if __import__("os").path.exists(f"/verif/seeded/{name}/meta.txt") else "",
        "confirmed": {"existing_tests_with_change": t1, "demo_with_change": d1, "demo_without_change": d0},
        "checks_run_with_change_applied_to_repo": res.split()}
json.dump(meta, open(f"/verif/seeded/{name}/meta.json", "w"), indent=1)
PY
