#!/bin/bash
# runs every registered quick check on the current tree; one line per check in work/runall.log
cd /verif; mkdir -p work; : > work/runall.log
for p in C01 C02 C03 C04 C05 C06 C07 C08 C09 C10 C11 C12 C13 C14 C15 C16 C17 C18 C19 C20; do
  s=$(date +%s); ./check $p --tier quick > work/runall_$p.out 2>&1; rc=$?
  echo "$p exit=$rc $(( $(date +%s) - s ))s $(tail -1 work/runall_$p.out | cut -c1-200)" >> work/runall.log
done
