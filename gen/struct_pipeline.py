"""struct engine (C15, static halves of C02/C13/C16): JoinStruct model-checked by TLC; every enumerated
input is rendered and pushed through the real parser + generator (harness/libdrv); TLC (TraceStruct)
judges that the observed outcome class equals the implementation model's; token soups are judged by
the totality clause of the property itself."""
import json, os, subprocess, itertools, time, re
from concurrent.futures import ThreadPoolExecutor
import common as C

LIBDRV = os.path.join(C.VERIF, "harness", "target", "release", "libdrv")

OPSYM = {"map": "|>", "and_then": "=>", "filter": "?>", "inspect": "??", "filter_map": "?|>", "find": "?@",
         "find_map": "?|>@", "partition": "?&!>", "or_else": "<=", "map_err": "!>", "then": "->", "dot": "..",
         "or": "<|", "chain": ">@>", "collect": "=>[]", "enumerate": "|n>", "flatten": "^^>", "fold": "^@",
         "try_fold": "?^@", "zip": ">^>", "unzip": "<->", "unwrap": "<<<"}
OPTS = {"path": "futures_crate_path(::futures)", "joiner": "custom_joiner(j)", "transpose": "transpose_results(true)",
        "lazy": "lazy_branches(true)"}


def build_libdrv(pkg="libdrv"):
    """libdrv: expansion only (generate_join / Config / JoinInputDefault); parsedrv: + parsed-structure dump (chain enums);
    namesdrv: + name constructors.  Checks build only the driver whose surface they need."""
    env = dict(os.environ, RUST_BACKTRACE="0")
    p = subprocess.run(["cargo", "build", "--offline", "--release", "-p", pkg], cwd=os.path.join(C.VERIF, "harness"),
                       env=env, stdout=subprocess.PIPE, stderr=subprocess.STDOUT, text=True)
    if p.returncode != 0:
        # join_impl itself does not compile any more, or the part of its public surface this driver uses changed
        raise C.ToolError(f"cargo build of harness/{pkg} failed:\n" + p.stdout[-3000:])


def libdrv_batch(reqs, wd, tag, procs=16, pkg="libdrv", env_extra=None, cwd=None):
    """Runs requests through libdrv in parallel processes; returns responses in order."""
    exe = os.path.join(C.VERIF, "harness", "target", "release", pkg)
    if not reqs:
        return []
    n = max(1, min(procs, len(reqs) // 2000 + 1))
    parts = [reqs[i::n] for i in range(n)]

    def go(k):
        inp = os.path.join(wd, f"{tag}_{k}.in")
        outp = os.path.join(wd, f"{tag}_{k}.out")
        with open(inp, "w") as f:
            for r in parts[k]:
                f.write(json.dumps(r) + "\n")
        with open(inp) as fi, open(outp, "w") as fo:
            p = subprocess.run([exe], stdin=fi, stdout=fo, stderr=subprocess.DEVNULL, cwd=cwd,
                               env=dict(os.environ, RUST_BACKTRACE="0", **(env_extra or {})))
        res = []
        with open(outp) as f:
            for line in f:
                res.append(json.loads(line))
        os.remove(inp)
        os.remove(outp)
        if len(res) != len(parts[k]):
            # the watchdog fired or the process died: the request after the last answer is the culprit
            culprit = parts[k][min(len(res), len(parts[k]) - 1)]
            res.append({"class": "hang" if p.returncode == 3 else "crash", "culprit": culprit})
            while len(res) < len(parts[k]):
                res.append({"class": "skipped"})
        return res

    with ThreadPoolExecutor(max_workers=n) as ex:
        outs = list(ex.map(go, range(n)))
    merged = [None] * len(reqs)
    for k in range(n):
        for j, r in enumerate(outs[k]):
            merged[k + j * n] = r
    return merged


def render_item(it):
    s = ("~" if it["deferred"] else "") + OPSYM[it["op"]]
    if it["mv"] == "wrap":
        return s + " >>>"
    if it["op"] == "unwrap" or it["opnd"] in ("na", "missing"):
        return s
    if it["op"] == "dot":
        return s + " m()"
    if it["opnd"].startswith("mid"):
        # an operator between the operands: behind operand number k
        k = int(it["opnd"][-1])
        mid = " <<<" if "unwrap" in it["opnd"] else " |> g"
        ops = ["a", "f"] if it["op"] in ("fold", "try_fold") else ["A", "B", "C", "D"]
        k = min(k, len(ops) - 1)
        return s + " " + ", ".join(o + (mid if j + 1 == k else "") for j, o in enumerate(ops))
    if it["op"] in ("fold", "try_fold"):
        return s + " a, f"
    return s + " f"


def render_elem(e):
    if e["t"] == "handler":
        return f"{e['h']} => h"
    if e["empty"]:
        return ""
    pre = {"none": "", "ident": "let x = ", "mut": "let mut x = ", "ref": "let ref x = ", "tuple": "let (x, y) = ", "wild": "let _ = ",
           "paren": "let (x) = ", "tstruct": "let Some(x) = ", "refpat": "let &x = ", "slice": "let [x] = ", "lit": "let 1 = ",
           "struct": "let S { x } = "}[e["let"]]
    return pre + "v " + " ".join(render_item(it) for it in e["items"])


def render_input(i):
    opts = " ".join(OPTS[o] for o in i["opts"])
    body = ", ".join(render_elem(e) for e in i["elems"])
    if i["elems"] and i["elems"][-1]["t"] == "branch" and i["elems"][-1]["empty"]:
        body += ","      # a lone trailing comma is legal; an empty LAST branch needs a second one
    return (opts + " " + body).strip()


def cfg_of(kind):
    return [kind["async"], kind["try"], kind["spawn"]]


def observed_class(resp):
    c = resp.get("class")
    if c == "ok":
        return "ok" if resp.get("reparse") else "invalid_output"
    if c == "lex_error":
        return "syn_error"
    return c


def model_families(pid, tier, families, resets=True, rounds=4, emit=True):
    """TLC on JoinStruct: invariants + one CASE line per input."""
    wd = C.workdir(pid, "tlc")
    cases = []
    states = trans = 0
    cmds = []
    violated = []

    def go(fam):
        cfg = (f'SPECIFICATION Spec\nCONSTANTS Family = "{fam}" Tier = "{tier}" BuilderResetsAtStep = {"TRUE" if resets else "FALSE"} '
               f'OptionRounds = {rounds}\nINVARIANTS NoInternal AcceptsValid Rejections {"EmitCase" if emit else ""}\nCHECK_DEADLOCK FALSE\n')
        rc, text = C.tlc("JoinStruct", cfg, wd, f"struct_{fam}", workers=4, timeout=3000)
        return fam, text

    with ThreadPoolExecutor(max_workers=4) as ex:
        for fam, text in ex.map(go, families):
            v = C.tlc_violation(text)
            if v is None and not C.tlc_ok(text):
                raise C.ToolError(f"TLC failed on JoinStruct family {fam}: {wd}/struct_{fam}.out\n" + text[-1500:])
            if v:
                violated.append((fam, v))
            s, t = C.tlc_stats(text)
            states += s
            trans += t
            n0 = len(cases)
            for c in C.tagged_lines(text, "CASE"):
                c["family"] = fam
                cases.append(c)
            cmds.append(f"tlc -workers 4 -config struct_{fam}.cfg JoinStruct.tla (Family={fam}, Tier={tier}; NoInternal AcceptsValid Rejections)")
            with open(os.path.join(wd, f"struct_{fam}.out"), "w") as f:
                f.write(f"{len(cases) - n0} cases; {s} states; violated={v}\n")
    return cases, states, trans, cmds, violated


def judge_with_tlc(pid, observations, tag="obs"):
    """TraceStruct: Outcome(inp) = observed for every pair. Returns list of rejected observations."""
    wd = C.workdir(pid, "tlc")
    chunks = [observations[i:i + 8000] for i in range(0, len(observations), 8000)]
    cfg = "SPECIFICATION TSpec\nCONSTANTS Family = \"none\" Tier = \"quick\" BuilderResetsAtStep = TRUE OptionRounds = 4\nPOSTCONDITION Accepted\nCHECK_DEADLOCK FALSE\n"

    def go(ci):
        obs = list(chunks[ci])
        rej = []
        for attempt in range(12):
            if not obs:
                break
            path = os.path.join(wd, f"{tag}_{ci}.ndjson")
            with open(path, "w") as f:
                for o in obs:
                    f.write(json.dumps({"inp": o["inp"], "observed": o["observed"]}) + "\n")
            rc, text = C.tlc("TraceStruct", cfg, wd, f"{tag}_{ci}", workers=1, env={"TRACE": path},
                             java_opts="-Xss1g -Dtlc2.tool.queue.IStateQueue=StateDeque", heap="3g", timeout=1800)
            if C.tlc_ok(text):
                return len(obs), rej, 0
            m = re.search(r'<<"OBS_REJECTED", (\d+), ', text)
            if not m:
                raise C.ToolError(f"TraceStruct failed without a verdict: {wd}/{tag}_{ci}.out\n" + text[-1500:])
            d = int(m.group(1))
            rej.append(obs[d - 1])
            obs = obs[:d - 1] + obs[d:]
        else:
            return 0, rej, len(obs)
        return len(obs), rej, 0

    acc = 0
    rejected = []
    skipped = 0
    with ThreadPoolExecutor(max_workers=8) as ex:
        for a, r, sk in ex.map(go, range(len(chunks))):
            acc += a
            rejected.extend(r)
            skipped += sk
    return acc, rejected, skipped


def soups(vocab, maxlen):
    for n in range(1, maxlen + 1):
        for combo in itertools.product(vocab, repeat=n):
            yield " ".join(combo)


SOUP_CFGS = [[False, False, False], [False, True, True], [True, True, False]]


def excluded_soup(text):
    """The property excludes inputs whose member-access operand is not a member access."""
    return ".." in text or ">." in text


def run_soups(pid, vocab, maxlen, verdict, sample_every=1):
    wd = C.workdir(pid, "soup")
    reqs = []
    texts = []
    for k, t in enumerate(soups(vocab, maxlen)):
        if k % sample_every:
            continue
        cfg = SOUP_CFGS[k % len(SOUP_CFGS)]
        reqs.append({"cmd": "expand", "input": t, "cfg": cfg})
        texts.append(t)
    resp = libdrv_batch(reqs, wd, "soup")
    classes = {}
    bad = 0
    for t, rq, r in zip(texts, reqs, resp):
        c = observed_class(r)
        classes[c] = classes.get(c, 0) + 1
        if c in ("ok", "syn_error", "config_reject"):
            continue
        if c == "invalid_output" and excluded_soup(t):
            classes["excluded_member_access"] = classes.get("excluded_member_access", 0) + 1
            continue
        if c == "skipped":
            continue
        bad += 1
        if bad <= 30:
            sig = f"soup|{c}|{(r.get('msg') or '')[:80]}|{t}"
            verdict.violation(sig, {"kind": "token_soup", "input": t, "cfg": rq["cfg"], "response": r},
                              f"token stream `{t}` (config async/try/spawn={rq['cfg']}): outcome class {c}: {(r.get('msg') or '')[:160]}")
    return len(reqs), classes, bad
