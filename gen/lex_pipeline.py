"""lex engine (C14): JoinLex model-checked by TLC (RoundTrip, Longest, TableOK); every enumerated structure is
rendered by the specification, parsed by the real parser (harness/libdrv `parse`) and the dumped structure must
equal the one the text was rendered from."""
import json, os, re
from concurrent.futures import ThreadPoolExecutor
import common as C
import struct_pipeline as S

OPNAME = {"map": "Map", "then": "Then", "and_then": "AndThen", "or": "Or", "or_else": "OrElse", "dot": "Dot", "dot_gt": "Dot",
          "map_err": "MapErr", "chain": "Chain", "inspect": "Inspect", "filter": "Filter", "find_map": "FindMap",
          "filter_map": "FilterMap", "enumerate": "Enumerate", "partition": "Partition", "flatten": "Flatten", "fold": "Fold",
          "try_fold": "TryFold", "find": "Find", "zip": "Zip", "unzip": "Unzip", "collect": "Collect", "unwrap": "UNWRAP"}


def strip(s):
    return re.sub(r"\s+", "", s)


def enumerate_structures(pid, tier, families):
    wd = C.workdir(pid, "tlc")
    cases, cmds = [], []
    states = trans = 0
    violated = []
    catalogue = None

    def go(fam):
        cfg = (f'SPECIFICATION Spec\nCONSTANTS Family = "{fam}" Tier = "{tier}"\n'
               f'INVARIANTS TableOK Longest RoundTrip EmitLex EmitCatalogue\nCHECK_DEADLOCK FALSE\n')
        rc, text = C.tlc("JoinLex", cfg, wd, f"lex_{fam}", workers=5, timeout=3000)
        return fam, text

    with ThreadPoolExecutor(max_workers=3) as ex:
        for fam, text in ex.map(go, families):
            v = C.tlc_violation(text)
            if v is None and not C.tlc_ok(text):
                raise C.ToolError(f"TLC failed on JoinLex family {fam}: {wd}/lex_{fam}.out\n" + text[-1500:])
            if v:
                violated.append((fam, v))
            s, t = C.tlc_stats(text)
            states += s
            trans += t
            n0 = len(cases)
            for c in C.tagged_lines(text, "LEX"):
                c["family"] = fam
                cases.append(c)
            for c in C.tagged_lines(text, "CATALOGUE"):
                catalogue = c
            cmds.append(f"tlc -workers 5 -config lex_{fam}.cfg JoinLex.tla (Family={fam}, Tier={tier}; TableOK Longest RoundTrip)")
            with open(os.path.join(wd, f"lex_{fam}.out"), "w") as f:
                f.write(f"{len(cases) - n0} structures; {s} states; violated={v}\n")
    return cases, catalogue, states, trans, cmds, violated


def validate_catalogue(pid, catalogue):
    """the complete-prefix sets of the operand catalogue, cross-checked with syn"""
    reqs, meta = [], []
    for qi, e in enumerate(catalogue):
        for p, text in enumerate(e["prefixes"], 1):
            reqs.append({"cmd": "valid", "input": text})
            meta.append((qi, p, e["kind"], p in e["cp"], text))
    resp = S.libdrv_batch(reqs, C.workdir(pid, "obs"), "cat", procs=1, pkg="parsedrv")
    bad = []
    for (qi, p, kind, want, text), r in zip(meta, resp):
        got = r.get("expr") if kind == "expr" else r.get("type")
        if bool(got) != want:
            bad.append(f"entry {qi + 1} prefix {p} `{text}`: catalogue says {'complete' if want else 'incomplete'} {kind}, syn says {got}")
    if bad:
        raise C.ToolError("operand catalogue of JoinLex disagrees with syn (tool error, not an alarm):\n  " + "\n  ".join(bad[:10]))
    return len(reqs)


def expected_members(case):
    """structure S -> list per branch of (let, [ (op, deferred, mv, [operand texts]) ]) with operand texts from the catalogue"""
    opnds = case["opnds"]
    k = [0]

    def take(n):
        r = opnds[k[0]:k[0] + n]
        k[0] += n
        return [strip(x) for x in r]

    out = []
    for b in case["s"]["branches"]:
        members = [("Initial", False, "none", take(1))]
        for it in b["items"]:
            members.append((OPNAME[it["op"]], it["deferred"], it["mv"], take(len(it["opnds"]))))
        out.append((b["let"], members))
    return out


def observed_members(dump):
    out = []
    for b in dump["branches"]:
        lt = "none"
        if b["let"]:
            lt = "mut" if b["let"]["mutable"] else "ident"
        members = []
        for m in b["members"]:
            ops = [] if m["mv"] == "wrap" else [strip(x) for x in m["operands"]]
            members.append((m["op"], m["deferred"], m["mv"] if m["mv"] != "unwrap" else "none", ops))
        out.append((lt, members))
    return out


def conform(pid, cases, verdict):
    reqs = [{"cmd": "parse", "input": c["text"]} for c in cases]
    resp = S.libdrv_batch(reqs, C.workdir(pid, "obs"), "lex", pkg="parsedrv")
    ok = 0
    for c, r in zip(cases, resp):
        exp = expected_members(c)
        h = c["s"]["handler"]
        if r.get("class") == "ok":
            got = observed_members(r["dump"])
            gh = (r["dump"]["handler"] or {}).get("kind", "none")
            if got == exp and gh == h:
                ok += 1
                continue
            first = next((i for i, (a, b) in enumerate(zip(got, exp)) if a != b), min(len(got), len(exp)))
            detail = f"branch {first}: parsed {got[first] if first < len(got) else '<missing>'}, written {exp[first] if first < len(exp) else '<none>'}"
            if got == exp:
                detail = f"handler parsed as {gh}, written {h}"
        else:
            detail = f"parser rejects it: {r.get('class')}: {r.get('msg', '')[:120]}"
        verdict.violation(f"lex|{c['text']}", {"kind": "lex_mismatch", "text": c["text"], "written_structure": c["s"], "parser": r},
                          f"`{c['text'].strip()}` is not split the way it was written: {detail}")
    return ok
