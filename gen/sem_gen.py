"""sem engine: renders JoinSem chains (JSON emitted by TLC) as (a) invocations of the real macros and
(b) the plain-Rust method chain documented for each operator (the twin; shares nothing with join_impl)."""
import json, os, shutil, subprocess
import exec_gen as G

RT = {"I": "i64", "B": "bool", "U": "()", "OI": "Option<i64>", "OOI": "Option<Option<i64>>", "OP": "Option<(i64, i64)>",
      "RI": "Result<i64, i64>", "VI": "Vec<i64>", "VOI": "Vec<Option<i64>>", "VP": "Vec<(i64, i64)>", "VEP": "Vec<(usize, i64)>"}
ELEM = {"ItI": "i64", "ItOI": "Option<i64>", "ItP": "(i64, i64)", "ItEP": "(usize, i64)"}
INNER = {"OI": "i64", "OOI": "Option<i64>", "OP": "(i64, i64)", "RI": "i64"}
REFT = {"rOI": "&Option<i64>", "rOOI": "&Option<Option<i64>>", "rRI": "&Result<i64, i64>", "E": "i64"}
SYM = {"map": "|>", "and_then": "=>", "filter": "?>", "inspect": "??", "filter_map": "?|>", "find": "?@",
       "find_map": "?|>@", "partition": "?&!>", "or_else": "<=", "map_err": "!>", "then": "->", "dot": "..",
       "or": "<|", "chain": ">@>", "collect": "=>[]", "enumerate": "|n>", "flatten": "^^>", "fold": "^@",
       "try_fold": "?^@", "zip": ">^>", "unzip": "<->", "unwrap": "<<<"}
METHOD = {"map": "map", "and_then": "and_then", "filter": "filter", "filter_map": "filter_map", "find": "find",
          "find_map": "find_map", "partition": "partition", "or_else": "or_else", "map_err": "map_err", "or": "or",
          "chain": "chain", "zip": "zip"}
DOT = {"unwrap_or0": "unwrap_or(0)", "is_some": "is_some()", "ok_or5": "ok_or(5i64)", "into_iter": "into_iter()", "ok": "ok()",
       "count": "count_i()", "sum": "sum::<i64>()", "last": "last()", "len": "len_i()"}
VAL = {"alt9": "rt::sem::alt9()", "altNone": "rt::sem::alt_none()", "altOk9": "rt::sem::alt_ok9()",
       "altErr7": "rt::sem::alt_err7()", "iter2": "rt::sem::iter2()", "iterL": "rt::sem::iter_l()"}
RET = {"inc": "i64", "dbl": "i64", "half": "Option<i64>", "chk": "Result<i64, i64>", "isEven": "bool", "isSome": "bool",
       "mk9": "Option<i64>", "rec": "Result<i64, i64>", "refail": "Result<i64, i64>", "e10": "i64", "psum": "i64",
       "addAcc": "i64", "tryAcc": "Option<i64>", "wrapSome": "Option<i64>", "nop": "()"}


def is_it(t):
    return t in ELEM


def elem_or_inner(t):
    return ELEM.get(t) or INNER.get(t)


def cb_parts(cb, op, inty, site):
    """(params, body, ret) of the callback closure for callback `cb` used by `op` on a value of type inty"""
    S = site
    if cb in ("inc", "dbl", "half", "chk", "wrapSome"):
        f = {"wrapSome": "wrap_some"}.get(cb, cb)
        return "x: i64", f"rt::sem::{f}({S}, x)", RET[cb]
    if cb == "isEven":
        return "x: &i64", f"rt::sem::is_even({S}, x)", "bool"
    if cb == "isSome":
        return "x: &Option<i64>", f"rt::sem::is_some({S}, x)", "bool"
    if cb == "mk9":
        return "", f"rt::sem::mk9({S})", RET[cb]
    if cb in ("rec", "refail", "e10"):
        return "e: i64", f"rt::sem::{cb}({S}, e)", RET[cb]
    if cb == "psum":
        e = elem_or_inner(inty)
        if e == "(usize, i64)":
            return "(a, b): (usize, i64)", f"rt::sem::esum({S}, a, b)", "i64"
        return "(a, b): (i64, i64)", f"rt::sem::psum({S}, a, b)", "i64"
    if cb == "addAcc":
        return "acc: i64, x: i64", f"rt::sem::add_acc({S}, acc, x)", "i64"
    if cb == "tryAcc":
        return "acc: i64, x: i64", f"rt::sem::try_acc({S}, acc, x)", "Option<i64>"
    if cb == "nop":
        if inty in REFT:          # inside an inspect wrapper: the parameter already is a reference
            return f"x: {REFT[inty]}", f"rt::sem::nop({S}, x)", "()"
        if inty == "rIt" or is_it(inty):
            return "x", f"rt::sem::nop_iter({S}, x)", None
        return f"x: &{RT[inty]}", f"rt::sem::nop({S}, x)", "()"
    if cb == "idt":
        if is_it(inty):
            return "x", f"rt::sem::idt_iter({S}, x)", None
        return f"x: {RT[inty]}", f"rt::sem::idt({S}, x)", RT[inty]
    raise ValueError(cb)


# Capture mode: in the non-spawning variants every closure operand also bumps `__cnt`, a non-Copy local (a Cell) of the
# calling function that it captures by reference.  A macro that changes how user closures capture their environment
# (e.g. by making an enclosing generated closure `move`) stops compiling or updates a copy; the sync variants compare
# the local with a global tick count at the end (rt::sem::same_ticks).
TICKS = [False]
TICK_VARIANTS = ("join", "try_join", "join_async", "awrap|join_async", "awrap|try_join_async")


# Hygiene: the closures also read caller locals with names a macro author might pick for a generated binding; if the
# expansion introduces such a binding around user code, the closure sees the macro's variable instead (type error).
ALIASES = ["value", "v", "result", "results", "res", "handler", "h", "joiner", "step", "fut", "item", "err", "ok", "branch", "idx", "i", "n",
           "tmp", "val", "data", "inner", "prev", "next", "current", "wrapped", "it", "f", "g", "s", "t", "c", "d", "m", "w", "y", "u",
           "future", "output", "args", "arg", "tuple", "first", "last", "left", "right", "values", "handle", "thread", "task", "joined"]


SALT = [0]      # rotates the alias names from one chain to the next (deterministic: chains are rendered in a fixed order)


def alias_pair(site):
    try:
        si = int(site)
    except (TypeError, ValueError):
        si = sum(map(ord, str(site)))
    k = SALT[0] * 5 + 2 * si
    return ALIASES[k % len(ALIASES)], ALIASES[(k + 1) % len(ALIASES)]


def tk(body, site=0):
    if not TICKS[0]:
        return body
    a, b = alias_pair(site)
    return f"{{ rt::sem::tick(&__cnt); rt::sem::touch(&{a}); rt::sem::touch(&{b}); {body} }}"


FNMUT = set()      # sites of the chain being rendered that lie inside an open wrapper over an iterator


def fnmut_sites(chain):
    st = site_types(chain)
    out, stack = set(), []
    for i, it in enumerate(chain["items"], 1):
        if it["deferred"]:
            stack = []
        if it["op"] == "unwrap":
            if stack:
                stack.pop()
            continue
        if any(stack):
            out.add(i)
        if it["mv"] == "wrap":
            stack.append(is_it(st[i]["ty"]) or st[i]["ty"] == "rIt")
    return out


MUTCAP = [False]     # set per operand: may the block's closure be FnMut?


def shaped(params, body, ret, shape, site, fnitems, opidx=0):
    c = f"|{params}| {tk(body, site)}"
    nsite = str(site).lstrip("t")      # (the twin's sites are spelled t<site>)
    if shape == "closure" or (ret is None and shape not in ("block", "block2")):
        return c
    if shape == "fnpath":
        fnitems.append(f"fn f_{site}({params}) -> {ret} {{ {body} }}")
        return f"f_{site}"
    if shape == "call":
        return f"rt::sem::ret({nsite}, {c})"
    if shape in ("block", "block2"):
        # the block's value is a `move` closure that owns a move-only token (a block capture need not be Clone) -- except
        # inside a wrapper over an iterator, whose generated closure runs once per item and can only copy what it uses
        if site in FNMUT:
            pre = f"let _ = rt::sem::cap({site}, {opidx});"
            inner = ""
            if TICKS[0]:
                a, b = alias_pair(site)
                pre += f" let __c = &__cnt; let __a = &{a}; let __b = &{b};"
                inner = "rt::sem::tick(__c); rt::sem::touch(__a); rt::sem::touch(__b); "
            return f"{{ {pre} move |{params}| {{ {inner}{body} }} }}"
        pre = f"let __m = rt::sem::cap({site}, {opidx});"
        inner = "__m.keep(); "
        if MUTCAP[0]:
            # ... and it counts its calls in a captured variable: an FnMut closure (sync `??` takes `Fn`: not there)
            pre += " let mut __n = 0i64;"
            inner += "__n += 1; "
        if TICKS[0]:
            a, b = alias_pair(site)
            pre += f" let __c = &__cnt; let __a = &{a}; let __b = &{b};"
            inner += "rt::sem::tick(__c); rt::sem::touch(__a); rt::sem::touch(__b); "
        return f"{{ {pre} move |{params}| {{ {inner}{body} }} }}"
    if shape == "paren":
        return f"({c})"
    if shape == "rettype":
        return f"|{params}| -> {ret} {{ {tk(body, site)} }}"
    if shape == "macro":
        return f"rt::clos!(rt::sem::ret({nsite}, {c}))"
    if shape == "field":
        return f"rt::sem::hold({nsite}, {c}).f"
    if shape == "method":
        return f"rt::sem::hold({nsite}, {c}).get()"
    if shape == "index":
        return f"[rt::sem::ret({nsite}, {c})][0]"
    if shape == "ref":
        # a borrowed closure literal stays alive only while it is a constant (rvalue promotion): no captures here
        return f"&|{params}| {body}"
    if shape == "ifelse":
        fnitems.append(f"fn f_{site}({params}) -> {ret} {{ {body} }}")
        return f"if rt::sem::yes({nsite}) {{ f_{site} }} else {{ f_{site} }}"
    raise ValueError(shape)


def site_types(chain):
    return {s["site"]: s for s in chain["sites"]}


STREAM = [False]      # rendering mode: iterator chains as futures streams (async macros)
STREAM_OPS = {"map", "filter", "filter_map", "enumerate", "chain", "zip"}
STREAM_END = {"fold", "collect", "unzip"}


def stream_eligible(chain):
    """iterator chains whose operators exist with the same meaning on futures::StreamExt and that end in a consumer"""
    its = chain["items"]
    if not is_it(chain["start"]) or len(its) < 1:
        return False
    if any(i["mv"] != "none" or i["deferred"] or i["shape"] != "closure" for i in its):
        return False
    return all(i["op"] in STREAM_OPS for i in its[:-1]) and its[-1]["op"] in STREAM_END


def operand_text(item, site, st, fnitems, twin=False):
    """operand of a non-wrapper item (text after the operator symbol); None if the operator has none"""
    op, arg = item["op"], item["arg"]
    inty = st[site]["ty"]
    if STREAM[0]:
        if op in ("chain", "zip"):
            return f"futures::stream::iter({VAL[arg]})"
        if op in ("filter", "filter_map", "fold"):
            p, b, r = cb_parts(arg, op, inty, site)
            c = f"|{p}| {tk(f'futures::future::ready({b})', site)}"
            return f"0i64, {c}" if op == "fold" else c
    if op == "dot":
        return DOT[arg]
    if op in ("or", "chain", "zip"):
        if item.get("shape") == "block":
            return f"{{ rt::sem::cap({site}, 0); {VAL[arg]} }}"
        return VAL[arg]
    if op == "collect":
        return f"Vec<{ELEM[inty]}>"
    if op == "unzip":
        return "i64, i64, Vec<i64>, Vec<i64>"
    if op in ("enumerate", "flatten"):
        return None
    p, b, r = cb_parts(arg, op, inty, site)
    sh = item.get("shape", "closure")
    MUTCAP[0] = op != "inspect"
    if op in ("fold", "try_fold"):
        c = shaped(p, b, r, sh, site if not twin or sh in ("block", "block2") else f"t{site}", fnitems, opidx=1)
        init = f"{{ rt::sem::cap({site}, 0); 0i64 }}" if sh == "block2" else "0i64"
        return f"{init}, {c}"
    return shaped(p, b, r, sh, site if not twin or sh in ("block", "block2") else f"t{site}", fnitems)


def macro_chain(chain, fnitems):
    st = site_types(chain)
    parts = []
    for i, it in enumerate(chain["items"], 1):
        pre = "~" if it["deferred"] else ""
        if it["op"] == "unwrap":
            parts.append(pre + "<<<")
        elif it["mv"] == "wrap":
            parts.append(pre + SYM[it["op"]] + " >>>")
        else:
            o = operand_text(it, i, st, fnitems)
            parts.append(pre + SYM[it["op"]] + ("" if o is None else " " + o))
    return " ".join(parts)


def hoist(text, site, lets):
    """C11 in the twin: every `{ rt::sem::cap(..); value }` block becomes a `let` evaluated at the start of its step"""
    out = []
    i = 0
    k = 0
    marks = ("{ rt::sem::cap(", "{ let __m = rt::sem::cap(", "{ let _ = rt::sem::cap(")
    while i < len(text):
        if any(text.startswith(mark, i) for mark in marks):
            depth = 0
            j = i
            while True:
                if text[j] == "{":
                    depth += 1
                elif text[j] == "}":
                    depth -= 1
                    if depth == 0:
                        break
                j += 1
            name = f"__c{site}_{k}"
            k += 1
            lets.append(f"let mut {name} = {text[i:j + 1]};")      # (mut: the closure may be FnMut and `->` calls it by name here)
            out.append(name)
            i = j + 1
        else:
            out.append(text[i])
            i += 1
    return "".join(out)


TRY_TWIN = [False]


def twin_stmts(chain, st, fnitems):
    """the documented meaning, step by step: captures of the step first (in position order), then the step's method chain"""
    items = chain["items"]
    nodes = chain["tree"]
    stmts = []
    cur = "x"
    k = 0
    step = 0
    if TRY_TWIN[0] and nodes and items[nodes[0]["site"] - 1]["deferred"]:
        stmts.append("if let Some(__j) = rt::sem::abort(&x) { return __j; }")      # the initial expression is a step of its own
    while k < len(nodes):
        j = k + 1
        while j < len(nodes) and not items[nodes[j]["site"] - 1]["deferred"]:
            j += 1
        lets = []
        expr = twin_expr(nodes[k:j], cur, st, fnitems, lets)
        stmts.extend(lets)
        step += 1
        stmts.append(f"let mut __s{step} = {expr};")
        cur = f"__s{step}"
        k = j
        if TRY_TWIN[0] and k < len(nodes):
            # a try macro stops at the end of a failed step
            stmts.append(f"if let Some(__j) = rt::sem::abort(&{cur}) {{ return __j; }}")
    return stmts, cur


def twin_expr(nodes, e, st, fnitems, lets=None):
    """the documented plain-Rust meaning: left to right method calls; wrappers as nested closures"""
    if lets is None:
        lets = []
        e = twin_expr(nodes, e, st, fnitems, lets)
        return ("{ " + " ".join(lets) + " " + e + " }") if lets else e
    for n in nodes:
        op = n["op"]
        site = n["site"]
        if n["wrapped"]:
            param = st[site]["param"]
            inner = twin_expr(n["inner"], "__w", st, fnitems, lets)     # (not `v`: that is one of the hygiene probe names)
            clo = f"|__w| {inner}"
            if op == "inspect":
                e = f"{{ let __t = {e}; ({clo})(&__t); __t }}"
            else:
                e = f"{e}.{METHOD[op]}({clo})"
            continue
        item = {"op": op, "arg": n["arg"], "shape": n.get("shape", "closure")}
        o = operand_text(item, site, st, fnitems, twin=True)
        if o is not None:
            o = hoist(o, site, lets)
        if op == "dot":
            e = f"{e}.{o}"
        elif op == "then":
            e = f"({o})({e})"
        elif op == "inspect":
            e = f"{{ let __t = {e}; ({o})(&__t); __t }}"
        elif op == "collect":
            e = f"{e}.collect::<{o}>()"
        elif op == "unzip":
            e = f"{e}.unzip::<{o}>()"
        elif op == "enumerate":
            e = f"{e}.enumerate()"
        elif op == "flatten":
            e = f"{e}.flatten()"
        elif op == "fold":
            e = f"{e}.fold({o})"
        elif op == "try_fold":
            e = f"{e}.try_fold({o})"
        else:
            e = f"{e}.{METHOD[op]}({o})"
    return e


def rust_value(v):
    t = v["t"]
    if t == "i":
        return f"{v['v']}i64"
    if t == "some":
        return f"Some({rust_value(v['v'])})"
    if t == "none":
        return "None"
    if t == "ok":
        return f"Ok({rust_value(v['v'])})"
    if t == "err":
        return f"Err({rust_value(v['v'])})"
    if t == "pair":
        return f"({rust_value(v['v'][0])}, {rust_value(v['v'][1])})"
    if t == "seq":
        return "vec![" + ", ".join(rust_value(x) for x in v["v"]) + "]"
    raise ValueError(t)


def input_expr(start, v):
    e = rust_value(v)
    if is_it(start):
        return f"({e} as Vec<{ELEM[start]}>).into_iter()"
    return e


def result_type(chain):
    ty = chain["ty"]
    if is_it(ty):
        return None
    if ty == "VV":
        # last top-level node decides the element type
        last = chain["tree"][-1]
        st = site_types(chain)
        if last["op"] == "unzip":
            return "(Vec<i64>, Vec<i64>)"
        e = ELEM[st[last["site"]]["ty"]]
        return f"(Vec<{e}>, Vec<{e}>)"
    return RT[ty]


def sorted_cases(chain, variant=None):
    """expected (input, value, calls) per input; under a try macro a chain with later steps has its own expectation"""
    key = "tcases" if variant is not None and try_sem(variant) and chain.get("tcases") else "cases"
    return sorted(chain[key], key=lambda c: json.dumps(c["inp"], sort_keys=True))


def evaluating_macro(variant):
    """the macro that evaluates the chain itself (innermost for nesting variants)"""
    if variant.startswith("nest|"):
        return variant.split("|")[2]
    if variant.startswith("nest3|"):
        return variant.split("|")[3]
    if variant.startswith("awrap"):
        return "join"       # inside the wrapper the chain is one expression: no step check applies to it
    return variant


def try_sem(variant):
    return evaluating_macro(variant).startswith("try_")


CARRIERS = ("OI", "OOI", "RI", "OP")


def try_typed(chain):
    """can the chain be the branch of a try macro?  Its value at the end of every step must be an Option / Result"""
    st = site_types(chain)
    if not (chain["ty"] in CARRIERS and all(st[i]["ty"] in CARRIERS for i, it in enumerate(chain["items"], 1) if it["deferred"])):
        return False
    # ... and the same kind of carrier at every step end: a step that ends with a Result cannot abort a macro whose value is an Option
    kind = {"OI": "opt", "OOI": "opt", "OP": "opt", "RI": "res"}
    ends = {kind[chain["ty"]]} | {kind[st[i]["ty"]] for i, it in enumerate(chain["items"], 1) if it["deferred"]}
    return len(ends) == 1


SPAWNING = ("join_spawn", "try_join_spawn", "spawn", "try_spawn")


def simple_expr(chain, variant, mchain):
    """expression whose value is the chain's value, evaluated by macro `variant`"""
    if variant.startswith("awrap|") or variant.startswith("awrapn|"):
        # the whole chain inside a wrapper of an async macro: `ready(x) |> >>> chain` is `ready(x).map(|v| v chain)`;
        # in capture mode a second branch uses the same captured local outside the wrapper
        w, m = variant.split("|")
        if w == "awrapn":
            return f"rt::sem::spin({m}! {{ futures::future::ready(x) |> >>> {mchain} }})"
        if m.startswith("try_"):
            return (f"rt::sem::spin({m}! {{ futures::future::ready(x) |> >>> {mchain}, futures::future::ready(Ok::<i64, i64>(0i64)) "
                    f"|> |z| {{ rt::sem::tick(&__cnt); z }} }}).map(|p| p.0)")
        return (f"rt::sem::spin({m}! {{ futures::future::ready(x) |> >>> {mchain}, futures::future::ready(0i64) "
                f"|> |z| {{ rt::sem::tick(&__cnt); z }} }}).0")
    if variant.startswith("mirror|"):
        # the chain as branch 0 next to siblings that have a block capture at member 0 of every step: whatever member index j a
        # capture of the chain has, branch j holds one at the mirrored (branch, member) position (internal names are per
        # (branch, member, operand)); the siblings' values are checked too
        m = variant.split("|")[1]
        steps = 1 + sum(1 for it in chain["items"] if it["deferred"])
        width, cur = 1, 1
        for it in chain["items"]:
            cur = 1 if it["deferred"] else cur + 1
            width = max(width, cur)
        sibs, checks = [], []
        for j in range(1, width + 1):
            t = f"{{ Some(rt::sem::sib({j}, 0)) }}"
            want = 100 * j
            for st in range(1, steps):
                t += f" ~|> {{ let __k = rt::sem::sib({j}, {st}); move |v: i64| v + __k }}"
                want += 100 * j + st
            sibs.append(t)
            checks.append(f"rt::sem::sib_check({j}, &__t.{j}, Some({want}i64));")
        return f"{{ let __t = {m}! {{ x {mchain}, {', '.join(sibs)} }}; {' '.join(checks)} __t.0 }}"
    if variant == "join_async":
        return f"futures::executor::block_on(join_async! {{ futures::stream::iter(x) {mchain} }})"
    if variant == "join_async_spawn":
        return ("tokio::runtime::Builder::new_current_thread().build().unwrap().block_on("
                f"join_async_spawn! {{ futures::stream::iter(x) {mchain}, futures::future::ready(0i64) }}).0")
    if variant in ("join", "try_join"):
        return f"{variant}! {{ x {mchain} }}"
    if variant.startswith("try_"):   # two-branch try variant: the transposed result, projected back on branch 0
        other = "rt::sem::alt_ok9()" if chain["ty"] == "RI" else "rt::sem::alt9()"
        return f"{variant}! {{ x {mchain}, {other} }}.map(|p| p.0)"
    return f"{variant}! {{ x {mchain}, rt::sem::alt9() }}.0"


ASYNC_OUTERS = ("join_async", "try_join_async", "join_async_spawn", "try_join_async_spawn")


def nest_async(outer, pos, inner_expr):
    """the same three positions inside an async macro; the outer future is driven to completion on the spot"""
    t = outer.startswith("try_")
    R = "futures::future::ready"

    def drive(e):
        if outer.endswith("_spawn"):
            return f"rt::sem::on_tokio(move || {e})"
        return f"rt::sem::spin({e})"
    if not t:
        if pos == "body":
            return drive(f"{outer}! {{ {R}(0i64) |> move |_z: i64| {inner_expr}, {R}(1i64) }}") + ".0"
        if pos == "cap":
            return drive(f"{outer}! {{ {R}(0i64) |> {{ let inner = {inner_expr}; move |_z: i64| inner }}, {R}(1i64) }}") + ".0"
        if pos == "handler":
            return drive(f"{outer}! {{ {R}(0i64), {R}(1i64), then => move |_a: i64, _b: i64| {R}({inner_expr}) }}")
    else:
        i0, i1 = f"{R}(Ok::<i64, ()>(0i64))", f"{R}(Ok::<i64, ()>(1i64))"
        if pos == "body":
            return drive(f"{outer}! {{ {i0} |> move |_z: Result<i64, ()>| Ok::<_, ()>({inner_expr}), {i1} }}") + ".map(|p| p.0).unwrap()"
        if pos == "cap":
            return drive(f"{outer}! {{ {i0} |> {{ let inner = {inner_expr}; move |_z: Result<i64, ()>| Ok::<_, ()>(inner) }}, {i1} }}") + ".map(|p| p.0).unwrap()"
        if pos == "handler":
            return drive(f"{outer}! {{ {i0}, {i1}, map => move |_a: i64, _b: i64| {inner_expr} }}") + ".unwrap()"
    raise ValueError(pos)


def nest_expr(outer, pos, inner_expr, ty="OI"):
    """`inner_expr` evaluated inside macro `outer` at position pos: operand closure body / capture block / handler /
    directly as a branch (`init`) / directly as the operand of `<|` (`opnd`).  In the two direct positions the expression
    written in front of the nested invocation (`rt::sem::first`) panics if a callback of the nested one ran before it."""
    if outer in ASYNC_OUTERS:
        return nest_async(outer, pos, inner_expr)
    t = outer.startswith("try_")
    if pos in ("init", "opnd"):
        assert outer in ("join", "try_join") and ty in ("OI", "RI")
        if pos == "init":
            front = "rt::sem::first(Some(0i64))" if ty == "OI" else "rt::sem::first(Ok::<i64, i64>(0i64))"
            e = f"{outer}! {{ {front}, {inner_expr} }}"
            return f"{e}.map(|p| p.1)" if t else f"{e}.1"
        front = "rt::sem::first(None::<i64>)" if ty == "OI" else "rt::sem::first(Err::<i64, i64>(0i64))"
        return f"{outer}! {{ {front} <| {inner_expr} }}"
    if pos == "body":
        e = f"{outer}! {{ Some(0i64) |> move |_z: i64| {inner_expr}, Some(1i64) }}"
        return f"{e}.map(|p| p.0).unwrap()" if t else f"{e}.0.unwrap()"
    if pos == "cap":
        e = f"{outer}! {{ Some(0i64) |> {{ let inner = {inner_expr}; move |_z: i64| inner }}, Some(1i64) }}"
        return f"{e}.map(|p| p.0).unwrap()" if t else f"{e}.0.unwrap()"
    if pos == "handler":
        if t:
            return f"{outer}! {{ Some(0i64), Some(1i64), map => move |_a: i64, _b: i64| {inner_expr} }}.unwrap()"
        return f"{outer}! {{ Some(0i64), Some(1i64), then => move |_a: Option<i64>, _b: Option<i64>| {inner_expr} }}"
    raise ValueError(pos)


def macro_expr(chain, variant, mchain):
    """variant: a macro name, or `nest|outer|inner|pos`, or `nest3|a|b|c|pos1|pos2`"""
    if variant.startswith("nest|"):
        _, outer, inner, pos = variant.split("|")
        return nest_expr(outer, pos, simple_expr(chain, inner, mchain), chain["ty"])
    if variant.startswith("nest3|"):
        _, a, b, c, p1, p2 = variant.split("|")
        return nest_expr(a, p1, nest_expr(b, p2, simple_expr(chain, c, mchain), chain["ty"]), chain["ty"])
    return simple_expr(chain, variant, mchain)


def chain_fns(name, chain, variant="join"):
    """returns (macro fn source, twin fn source)"""
    cases = sorted_cases(chain, variant)
    start = chain["start"]
    arms = "".join(f"{k} => {input_expr(start, c['inp'])}, " for k, c in enumerate(cases[:-1]))
    arms += f"_ => {input_expr(start, cases[-1]['inp'])}"
    sty = (f"std::vec::IntoIter<{ELEM[start]}>" if is_it(start) else RT[start])
    rty = result_type(chain)
    ann = f": {rty}" if rty else ""
    fin = "rt::sem::drain(r)" if rty is None else "rt::sem::canon(&r)"
    mitems, titems = [], []
    STREAM[0] = variant in ("join_async", "join_async_spawn")
    TICKS[0] = variant in TICK_VARIANTS
    TRY_TWIN[0] = try_sem(variant)
    FNMUT.clear()
    FNMUT.update(fnmut_sites(chain))
    SALT[0] = sum(map(ord, name)) + len(chain["items"])
    cnt = ("    let __cnt = std::cell::Cell::new(0i64);\n" + "".join(f"    let {a} = std::cell::Cell::new(0i64);\n" for a in ALIASES)) if TICKS[0] else ""
    chk = "    rt::sem::same_ticks(&__cnt);\n" if variant in ("join", "try_join") else ""
    mchain = macro_chain(chain, mitems)
    if STREAM[0]:
        tstmts = ["use futures::StreamExt;",
                  "let __s = futures::executor::block_on(" + twin_expr(chain["tree"], "futures::stream::iter(x)", site_types(chain), titems) + ");"]
        tlast = "__s"
    else:
        tstmts, tlast = twin_stmts(chain, site_types(chain), titems)
    STREAM[0] = False
    TICKS[0] = False
    call = f"let r{ann} = {macro_expr(chain, variant, mchain)};"
    hdr = "#[allow(unused_mut, unused_variables, unused_parens, unused_braces, clippy::all)]\n"
    m = (hdr + f"pub fn m_{name}(k: usize) -> Value {{\n" + "".join(f"    {x}\n" for x in mitems) + cnt +
         f"    let mut x: {sty} = match k {{ {arms} }};\n    {call}\n    let out = {fin};\n{chk}    out\n}}\n")
    t = (hdr + f"pub fn t_{name}(k: usize) -> Value {{\n" + "".join(f"    {x}\n" for x in titems) + cnt +
         f"    let mut x: {sty} = match k {{ {arms} }};\n" + "".join(f"    {x}\n" for x in tstmts) + f"    let r{ann} = {tlast};\n    {fin}\n}}\n")
    return m, t, len(cases)


def write_workspace(ws_dir, crates):
    """crates: {crate: [(name, chain, variant)]} -> spans {crate: {fn: (first, last)}}"""
    if os.path.isdir(ws_dir):
        shutil.rmtree(ws_dir)
    os.makedirs(os.path.join(ws_dir, ".cargo"))
    shutil.copy(os.path.join(G.VERIF, "harness", "Cargo.lock"), os.path.join(ws_dir, "Cargo.lock"))
    with open(os.path.join(ws_dir, ".cargo", "config.toml"), "w") as f:
        f.write(f'[net]\noffline = true\n[build]\ntarget-dir = "{G.TARGET}"\n')
    with open(os.path.join(ws_dir, "Cargo.toml"), "w") as f:
        f.write(G.WS_TOML.format(members=", ".join(f'"{c}"' for c in crates)))
    spans = {}
    for cname, entries in crates.items():
        d = os.path.join(ws_dir, cname, "src")
        os.makedirs(d)
        with open(os.path.join(ws_dir, cname, "Cargo.toml"), "w") as f:
            f.write(G.CARGO_TOML.format(name=cname, repo=G.REPO, verif=G.VERIF, rtfeat="", futdep='futures = "0.3.0"\n'))
        lines = ["#![allow(clippy::all)]", "#[allow(unused_imports)]", "use join::*;", "#[allow(unused_imports)]",
                 "use rt::sem::{Ext, VecExt};", "use serde_json::Value;", ""]
        sp = {}
        table = []
        for name, chain, variant in entries:
            m, t, n = chain_fns(name, chain, variant)
            for tag, src in (("m_", m), ("t_", t)):
                first = len(lines) + 1
                lines.extend(src.rstrip("\n").split("\n"))
                sp[tag + name] = (first, len(lines))
                lines.append("")
            table.append(f'("{name}", {n}, m_{name}, t_{name})')
        lines.append("fn main() { rt::sem::main_loop(&[" + ", ".join(table) + "]); }")
        with open(os.path.join(d, "main.rs"), "w") as f:
            f.write("\n".join(lines) + "\n")
        spans[cname] = sp
    return spans
