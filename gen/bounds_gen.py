"""C19, bounds half: programs over move-only, non-Send, non-'static values that borrow (also mutably)
from the caller's stack.  That they compile with the non-spawning macros IS the check; they are also
run and their results asserted."""
import os, shutil
import exec_gen as G

PRELUDE = r"""
#![allow(clippy::all, unused_mut, unused_variables, unused_parens, unused_braces, dead_code)]
use join::*;
use std::marker::PhantomData;
use std::rc::Rc;
use std::cell::Cell;
use futures::future::ready;
use futures::executor::block_on;

/// not Clone, not Send, not 'static: holds a mutable borrow of a caller local
struct Loc<'a> { r: &'a mut i64, _p: PhantomData<*const ()> }
fn loc<'a>(r: &'a mut i64) -> Loc<'a> { Loc { r, _p: PhantomData } }
fn bump<'a>(l: Loc<'a>, by: i64) -> Loc<'a> { *l.r += by; l }
/// not Clone, not Send
struct Tag(Rc<Cell<i64>>);
fn tag(v: i64) -> Tag { Tag(Rc::new(Cell::new(v))) }
fn add(t: Tag, by: i64) -> Tag { t.0.set(t.0.get() + by); t }
"""

PROGS = [
("join_borrows", "join", r"""
pub fn join_borrows() {
    let mut a = 1i64;
    let mut b = 2i64;
    let mut count = 0i64;
    {
        let r = join! {
            let first = Some(loc(&mut a)) |> |l| bump(l, 1) ~|> |l| bump(l, 10) ~|> |l| bump(l, 100),
            Some(loc(&mut b)) |> |l| bump(l, 2) ~|> { let peek = first.as_ref().map(|l| *l.r).unwrap_or(0); move |l| bump(l, peek) },
            Some(tag(1)) |> |t| { count += 1; add(t, 1) } ~|> { let k = 3; move |t| add(t, k) },
            Some(7i64)
        };
        let (x, y, t, z) = (r.0.unwrap(), r.1.unwrap(), r.2.unwrap(), r.3.unwrap());
        assert_eq!((*x.r, *y.r, t.0.get(), z), (112, 6, 5, 7));
    }
    assert_eq!((a, b, count), (112, 6, 1));
}
"""),
("try_join_borrows", "try_join", r"""
pub fn try_join_borrows() {
    let mut a = 1i64;
    let mut b = 2i64;
    let mut count = 0i64;
    {
        let r = try_join! {
            let first = Ok::<_, ()>(loc(&mut a)) |> |l| bump(l, 1) ~|> |l| bump(l, 10) ~=> |l| Ok(bump(l, 100)),
            Ok::<_, ()>(loc(&mut b)) |> |l| bump(l, 2) ~|> { let peek = first.as_ref().map(|l| *l.r).unwrap_or(0); move |l| bump(l, peek) },
            Ok::<_, ()>(tag(1)) |> |t| { count += 1; add(t, 1) } ~|> { let k = 3; move |t| add(t, k) },
            map => |x: Loc, y: Loc, t: Tag| (*x.r, *y.r, t.0.get())
        };
        assert_eq!(r, Ok((112, 6, 5)));
    }
    assert_eq!((a, b, count), (112, 6, 1));
}
"""),
("join_then_handler", "join", r"""
pub fn join_then_handler() {
    let mut a = 5i64;
    let out = join! {
        Some(loc(&mut a)) |> |l| bump(l, 4) ~|> |l| bump(l, 5),
        Some(tag(3)),
        then => |l: Option<Loc>, t: Option<Tag>| *l.unwrap().r + t.unwrap().0.get()
    };
    assert_eq!(out, 17);
}
"""),
("try_join_single_branch", "try_join", r"""
pub fn try_join_single_branch() {
    let mut a = 5i64;
    let out = try_join! { Some(loc(&mut a)) |> |l| bump(l, 4) ~=> |l| Some(bump(l, 5)) ~|> |l| *l.r };
    assert_eq!(out, Some(14));
}
"""),
("join_async_borrows", "join_async", r"""
pub fn join_async_borrows() {
    let mut a = 1i64;
    let mut count = 0i64;
    {
        let la = loc(&mut a);       // `async move` moves what it names: borrows are taken outside
        let fut = join_async! {
            ready(la) |> |l| bump(l, 1) ~|> |l| bump(l, 10),
            ready(tag(1)) |> |t| add(t, 1) ~|> { let k = 3; move |t| add(t, k) },
            ready(7i64)
        };
        let (x, t, z) = block_on(fut);
        assert_eq!((*x.r, t.0.get(), z), (12, 5, 7));
    }
    assert_eq!((a, count), (12, 0));
}
"""),
("try_join_async_borrows", "try_join_async", r"""
pub fn try_join_async_borrows() {
    let mut a = 1i64;
    let mut count = 0i64;
    {
        let la = loc(&mut a);
        let fut = try_join_async! {
            ready(Ok::<_, ()>(la)) => |l| ready(Ok(bump(l, 1))) ~=> |l| ready(Ok(bump(l, 10))),
            ready(Ok::<_, ()>(tag(1))) => |t| ready(Ok(add(t, 1))),
            map => |x: Loc, t: Tag| (*x.r, t.0.get())
        };
        assert_eq!(block_on(fut), Ok((12, 2)));
    }
    assert_eq!((a, count), (12, 0));
}
"""),
]


def corpus():
    return [(n, s, m) for n, m, s in PROGS]


def write_crate(ws_dir, progs):
    cname = "c19_bounds"
    if os.path.isdir(ws_dir):
        shutil.rmtree(ws_dir)
    os.makedirs(os.path.join(ws_dir, ".cargo"))
    shutil.copy(os.path.join(G.VERIF, "harness", "Cargo.lock"), os.path.join(ws_dir, "Cargo.lock"))
    with open(os.path.join(ws_dir, ".cargo", "config.toml"), "w") as f:
        f.write(f'[net]\noffline = true\n[build]\ntarget-dir = "{G.TARGET}"\n')
    with open(os.path.join(ws_dir, "Cargo.toml"), "w") as f:
        f.write(G.WS_TOML.format(members=f'"{cname}"'))
    d = os.path.join(ws_dir, cname, "src")
    os.makedirs(d)
    with open(os.path.join(ws_dir, cname, "Cargo.toml"), "w") as f:
        f.write(G.CARGO_TOML.format(name=cname, repo=G.REPO, verif=G.VERIF, rtfeat="", futdep='futures = "0.3.0"\n'))
    lines = PRELUDE.strip("\n").split("\n")
    spans = {}
    for n, src, macro in progs:
        first = len(lines) + 1
        lines.extend(src.strip("\n").split("\n"))
        spans[n] = (first, len(lines))
        lines.append("")
    lines.append("fn main() {")
    lines.append("    let which: Vec<String> = std::env::args().skip(1).collect();")
    for n, _, _ in progs:
        lines.append(f'    if which.is_empty() || which.contains(&"{n}".to_string()) {{ {n}(); println!("OK {n}"); }}')
    lines.append("}")
    with open(os.path.join(d, "main.rs"), "w") as f:
        f.write("\n".join(lines) + "\n")
    return cname, spans
