"""Shared plumbing: TLC invocation, output parsing, evidence, findings."""
import json, os, re, subprocess, sys, time, shutil

VERIF = os.path.dirname(os.path.dirname(os.path.abspath(__file__)))
SPEC = os.path.join(VERIF, "spec")
WORK = os.path.join(VERIF, "work")
EVID = os.path.join(VERIF, "evidence")


class ToolError(Exception):
    pass


def seed():
    try:
        return int(os.environ.get("VERIF_SEED", "1"))
    except ValueError:
        return 1


def workdir(pid, sub=None):
    d = os.path.join(WORK, pid) if sub is None else os.path.join(WORK, pid, sub)
    os.makedirs(d, exist_ok=True)
    return d


def tlc(module, cfg_text, wd, tag, workers=8, env=None, timeout=3600, extra=None, java_opts=None, heap="8g"):
    """Runs TLC on spec/<module>.tla with the given cfg text. Returns (rc, stdout)."""
    cfg = os.path.join(wd, f"{tag}.cfg")
    with open(cfg, "w") as f:
        f.write(cfg_text)
    md = os.path.join(wd, f"md_{tag}")
    shutil.rmtree(md, ignore_errors=True)
    e = dict(os.environ)
    if java_opts:
        e["JAVA_TOOL_OPTIONS"] = java_opts
    if env:
        e.update(env)
    cmd = ["java", "-XX:+UseParallelGC", f"-Xmx{heap}", "-cp",
           "/opt/veriftools/tla/tla2tools.jar:/opt/veriftools/tla/CommunityModules-deps.jar", "tlc2.TLC",
           "-workers", str(workers), "-metadir", md, "-cleanup", "-noGenerateSpecTE", "-config", cfg]
    if extra:
        cmd += extra
    cmd += [os.path.join(SPEC, module + ".tla")]
    out_path = os.path.join(wd, f"{tag}.out")
    with open(out_path, "w") as out:
        try:
            p = subprocess.run(cmd, cwd=SPEC, env=e, stdout=out, stderr=subprocess.STDOUT, timeout=timeout)
            rc = p.returncode
        except subprocess.TimeoutExpired:
            rc = -9
    shutil.rmtree(md, ignore_errors=True)
    with open(out_path) as f:
        text = f.read()
    return rc, text


def tlc_stats(text):
    m = re.search(r"(\d+) states generated, (\d+) distinct states found", text)
    if not m:
        return 0, 0
    return int(m.group(2)), int(m.group(1))  # (distinct states, transitions ~ states generated)


def tlc_ok(text):
    return "Model checking completed. No error has been found." in text


def tlc_violation(text):
    """Returns the violated invariant/property name, or None."""
    m = re.search(r"Error: Invariant (\w+) is violated", text) or re.search(r"Error: The invariant of (\w+) is equal to FALSE", text)
    if m:
        return m.group(1)
    m = re.search(r"Error: (Temporal properties were violated|Deadlock reached|Action property \w+ is violated)", text)
    if m:
        return m.group(1)
    return None


def tagged_lines(text, tag):
    """Yields the JSON payload of lines printed as <<"TAG", "json">> by PrintT."""
    pre = f'<<"{tag}", '
    for line in text.splitlines():
        if line.startswith(pre) and line.endswith(">>"):
            body = line[len(pre):-2]
            try:
                yield json.loads(json.loads(body))
            except Exception:
                continue


def write_evidence(pid, tier, level, coverage, wall, violations, assumptions=None):
    os.makedirs(EVID, exist_ok=True)
    ev = {"property_id": pid, "tier": tier, "seed": seed(), "level": level, "coverage": coverage,
          "wall_s": round(wall, 2), "violations": violations}
    if assumptions:
        ev["assumptions"] = assumptions
    with open(os.path.join(EVID, pid + ".json"), "w") as f:
        json.dump(ev, f, indent=1)


def load_findings():
    p = os.path.join(VERIF, "known_findings.json")
    if not os.path.exists(p):
        return {"known": [], "fixed": []}
    with open(p) as f:
        return json.load(f)


def match_known(pid, signature):
    """A known (unrepaired) finding is identified by property + regex over the violation signature."""
    for k in load_findings().get("known", []):
        if k.get("property") == pid and re.search(k.get("signature_regex", "$^"), signature):
            return k
    return None


class Verdict:
    """Collects violations of one check run and turns them into the exit protocol."""

    def __init__(self, pid, outdir=None):
        self.pid = pid
        self.outdir = outdir or pid
        self.violations = []   # (signature, replay_path, summary)
        self.known = []
        self.notes = []
        shutil.rmtree(os.path.join(WORK, self.outdir, "replay"), ignore_errors=True)

    def violation(self, signature, replay_obj, summary):
        k = match_known(self.pid, signature)
        if k is not None:
            self.known.append((k, signature))
            return
        d = workdir(self.outdir, "replay")
        path = os.path.join(d, f"{len(self.violations)}.json")
        replay_obj = dict(replay_obj, property=self.pid, signature=signature, summary=summary)
        with open(path, "w") as f:
            json.dump(replay_obj, f, indent=1)
        self.violations.append((signature, path, summary))

    def finish(self):
        seen = set()
        for k, sig in self.known:
            if k.get("id") in seen:
                continue
            seen.add(k.get("id"))
            print(f"KNOWN-FINDING: property={self.pid} {k.get('what', sig)}")
        for sig, path, summary in self.violations[:20]:
            print(f"VIOLATION property={self.pid} replay={path}")
            print(f"  {summary}")
        if len(self.violations) > 20:
            print(f"  ... and {len(self.violations) - 20} more")
        return 1 if self.violations else 0
