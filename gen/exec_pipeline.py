"""exec engine: TLC model-checks a run family of JoinExec (A), the same runs are rendered,
compiled against the real macros, executed under the emitted schedules, and every recorded
trace is validated against TraceExec by TLC again (B)."""
import json, os, time, hashlib, re, shutil
from concurrent.futures import ThreadPoolExecutor
import common as C
import exec_gen as G

TRACE_JAVA = "-Xss1g -Dtlc2.tool.queue.IStateQueue=StateDeque"


def mc_cfg(family, tier, quiescent, trackhist, emit, maxspur, reduce, invariants, properties=(), spec="Spec", live=False):
    b = lambda x: "TRUE" if x else "FALSE"
    s = f"SPECIFICATION {spec}\nCONSTANTS\n"
    s += f' Family = "{family}"\n Tier = "{tier}"\n Quiescent = {b(quiescent)}\n TrackHist = {b(trackhist)}\n'
    s += f" Emit = {b(emit)}\n MaxSpurious = {maxspur}\n Reduce = {b(reduce)}\n Live = {b(live)}\n"
    if invariants:
        s += "INVARIANTS " + " ".join(invariants) + "\n"
    if properties:
        s += "PROPERTIES " + " ".join(properties) + "\n"
    s += "CHECK_DEADLOCK TRUE\n" if live else "CHECK_DEADLOCK FALSE\n"
    return s


def model_check(pid, tier, family, invariants, trackhist=False, reduce=True, workers=8, timeout=3000, tag=None):
    # history instances run against the quiescent-point environment: with free polls the history is unbounded
    """(A): exhaustive check of the invariants on the family, all interleavings."""
    wd = C.workdir(pid, "tlc")
    tag = tag or f"mc_{family}"
    rc, text = C.tlc("MCExec", mc_cfg(family, tier, trackhist, trackhist, False, 0, reduce, invariants), wd, tag,
                     workers=workers, timeout=timeout)
    v = C.tlc_violation(text)
    states, trans = C.tlc_stats(text)
    if v is None and not C.tlc_ok(text):
        raise C.ToolError(f"TLC failed on {family} ({tag}): see {wd}/{tag}.out\n" + text[-2000:])
    return {"family": family, "violated": v, "states": states, "transitions": trans, "out": os.path.join(wd, tag + ".out"),
            "cmd": f"tlc -workers {workers} -config {tag}.cfg MCExec.tla  (Family={family}, Tier={tier}, invariants: {' '.join(invariants)})"}


def model_check_live(pid, tier, family, maxspur=0, workers=4, timeout=3000):
    """(A), liveness: under weak fairness every evaluation completes (quiescent-mode environment)."""
    wd = C.workdir(pid, "tlc")
    tag = f"live_{family}"
    rc, text = C.tlc("MCExec", mc_cfg(family, tier, True, False, False, maxspur, True, ["TypeOK", "Bounded"], live=True),
                     wd, tag, workers=workers, timeout=timeout)
    v = C.tlc_violation(text)
    states, trans = C.tlc_stats(text)
    if v is None and not C.tlc_ok(text):
        raise C.ToolError(f"TLC failed on {family} ({tag}): see {wd}/{tag}.out\n" + text[-2000:])
    return {"family": family, "violated": v, "states": states, "transitions": trans, "out": os.path.join(wd, tag + ".out"),
            "cmd": f"tlc -workers {workers} -config {tag}.cfg MCExec.tla  (Live=TRUE: step counter Bounded + CHECK_DEADLOCK TRUE = every maximal path completes; Family={family}, Tier={tier})"}


def emit_runs(pid, tier, family, maxspur=0, workers=8, timeout=3000):
    """TLC enumerates the family's runs with their environment schedules (quiescent mode)."""
    wd = C.workdir(pid, "tlc")
    tag = f"emit_{family}"
    rc, text = C.tlc("MCExec", mc_cfg(family, tier, True, False, True, maxspur, True, ["EmitRun"]), wd, tag,
                     workers=workers, timeout=timeout)
    if not C.tlc_ok(text):
        raise C.ToolError(f"TLC emission failed on {family}: see {wd}/{tag}.out\n" + text[-2000:])
    runs = {}
    for r in C.tagged_lines(text, "RUN"):
        key = json.dumps([r["prog"], r["plan"], r["gates"], r["sched"]], sort_keys=True)
        if key not in runs:
            runs[key] = r
    states, trans = C.tlc_stats(text)
    # the emission log is large; keep only the summary
    with open(os.path.join(wd, tag + ".out"), "w") as f:
        f.write(f"{len(runs)} distinct runs emitted; {states} states\n")
    return list(runs.values()), states, trans


def sched_for_rt(P, sched):
    """TLC schedule entries -> what rt's drivers expect."""
    out = []
    if not P["kind"]["async"]:
        for e in sched:
            if e["a"] == "rel":
                out.append({"g": e["ids"][0], "expect": e["arrived"], "hold": e["hold"]})
        return out
    for e in sched:
        if e["a"] == "poll":
            x = {"a": "poll"}
            if not P["kind"]["spawn"]:
                x["expect"] = {"arrived": sorted(e["arrived"]), "done": e["done"]}
            out.append(x)
        elif e["a"] == "ready":
            out.append({"a": "ready", "ids": e["ids"]})
    return out


def prog_key(P):
    """identity of the compiled function: the name of the calling thread is run-time data, so runs of one program under
    differently named callers execute the SAME expansion in one process (generated statics / caches are shared)"""
    return json.dumps({k: v for k, v in P.items() if k != "caller"}, sort_keys=True)


def held_gates(r):
    """free-running panic runs of the thread-spawning macros: the gates of higher-numbered siblings of the panicking branch stay
    closed until the caller has its result, if the panic is raised on a branch thread in the step the gates belong to
    (ids: 100 * (branch + 1) + 10 * step + position; the specification lets the panic surface once the LOWER siblings are done)"""
    k = r["prog"]["kind"]
    if k["async"] or not k["spawn"]:
        return []
    pans = [p for p in r["plan"] if p["a"] == "panic" and p["t"] in ("f", "i", "o")]
    if len(pans) != 1 or any(p["a"] == "fail" for p in r["plan"]):
        return []
    pid_ = pans[0]["id"]
    if pid_ >= 10000:
        return []
    pb, pstep = pid_ // 100 - 1, (pid_ % 100) // 10
    return [g for g in r["gates"] if g // 100 - 1 > pb and (g % 100) // 10 == pstep]


def build_and_run(pid, runs, verdict, ncrates=16, grace_ms=0, extra_run_fields=None, tag="ws", bounds=False):
    """Compiles the distinct programs of `runs`, executes every run, returns list of
    (run, [event json strings]) and build statistics."""
    progs = {}
    for r in runs:
        k = prog_key(r["prog"])
        if k not in progs:
            progs[k] = (f"p{len(progs)}", r["prog"])
    names = list(progs.values())
    ncr = max(1, min(ncrates, (len(names) + 7) // 8))
    crates = {}
    for i, (fn, P) in enumerate(names):
        # programs with a custom futures_crate_path live in crates that do not depend on `futures` under that name
        nf = "nf" if P.get("opts", {}).get("path", "default") == "custom" else ""
        crates.setdefault(f"{pid.lower()}_{tag}{nf}_{i % ncr}", []).append((fn, P))
    # one mixed crate: some calls that carry `futures_crate_path` are expanded first, calls without the option after them in the
    # same compilation (an option belongs to the call it is written in)
    cust = [x for c, ps in crates.items() if "nf_" in c for x in ps][::4][:6]
    if cust:
        plain = [x for c, ps in crates.items() if "nf_" not in c for x in ps if x[1]["kind"]["async"]][::3][:24]
        moved = {fn for fn, _ in cust + plain}
        crates = {c: [x for x in ps if x[0] not in moved] for c, ps in crates.items()}
        crates = {c: ps for c, ps in crates.items() if ps}
        crates[f"{pid.lower()}_{tag}mx_0"] = cust + plain
    ws = os.path.join(C.workdir(pid), tag)
    t0 = time.time()
    bad = set()
    for attempt in range(8):
        cr = {c: [(fn, P) for fn, P in ps if fn not in bad] for c, ps in crates.items()}
        cr = {c: ps for c, ps in cr.items() if ps}
        if not cr:
            break
        G.BOUNDS = bounds
        try:
            spans = G.write_workspace(ws, cr)
        finally:
            G.BOUNDS = False
        ok, diags, err = G.cargo_build(ws)
        if ok:
            crates = cr
            break
        newbad = set()
        for cname, fname, ln, msg in diags:
            sp = spans.get(cname)
            if sp is None or ln is None or fname is None or not fname.endswith("main.rs"):
                continue
            for fn, (a, b) in sp.items():
                if a <= ln <= b:
                    newbad.add((fn, msg))
        if not newbad:
            raise C.ToolError("cargo build of the generated corpus failed outside any program function:\n" + err[-3000:]
                              + "\n".join(d[3] for d in diags[:3]))
        byname = dict((fn, P) for fn, P in names)
        for fn, msg in newbad:
            if fn in bad:
                continue
            bad.add(fn)
            P = byname[fn]
            sig = f"compile|{G.macro_name(P)}|depths={[len(b['steps']) for b in P['branches']]}|{msg.splitlines()[0][:120]}"
            G.BOUNDS = bounds
            try:
                src = G.program_fn(fn, P)
            finally:
                G.BOUNDS = False
            verdict.violation(sig, {"kind": "compile_error", "prog": P, "macro_source": src, "bounds_mode": bounds, "diagnostic": msg},
                              f"expansion of a generated program does not compile: {msg.splitlines()[0][:160]}")
    else:
        raise C.ToolError("cargo build still failing after removing non-compiling programs")
    build_s = time.time() - t0
    # execute
    name_of = {prog_key(P): fn for fn, P in names}
    crate_of = {}
    for c, ps in crates.items():
        for fn, P in ps:
            crate_of[fn] = c
    per_crate = {}
    for i, r in enumerate(runs):
        fn = name_of[prog_key(r["prog"])]
        if fn in bad:
            continue
        rr = {"p": fn, "rid": i, "prog": r["prog"], "plan": r["plan"], "gates": r["gates"],
              "sched": sched_for_rt(r["prog"], r.get("sched", [])), "grace_ms": grace_ms, "auto": r.get("auto", True)}
        if extra_run_fields:
            rr.update(extra_run_fields)
            if extra_run_fields.get("auto_release"):
                rr["hold_until_end"] = held_gates(r)
        per_crate.setdefault(crate_of[fn], []).append(rr)
    outdir = C.workdir(pid, "traces")
    t1 = time.time()

    def go(c):
        out = os.path.join(outdir, f"{c}.ndjson")
        rc, err = G.run_crate(ws, c, per_crate[c], out)
        if rc != 0:
            raise C.ToolError(f"generated binary {c} exited {rc}: {err[-2000:]}")
        return out

    with ThreadPoolExecutor(max_workers=16) as ex:
        outs = list(ex.map(go, list(per_crate.keys())))
    run_s = time.time() - t1
    traces = []
    for out in outs:
        cur = None
        with open(out) as f:
            for line in f:
                line = line.rstrip("\n")
                if not line:
                    continue
                if '"ev":"reset"' in line[:80]:
                    cur = []
                    traces.append(cur)
                cur.append(line)
    stats = {"programs": len(names) - len(bad), "compile_failures": len(bad), "build_s": round(build_s, 1),
             "run_s": round(run_s, 1), "runs": len(traces)}
    return traces, stats, ws


def run_header(lines):
    return json.loads(lines[0])


def validate_traces(pid, traces, verdict, workers=8, chunk_events=6000, sig_fn=None, tag="val"):
    """(B) code -> spec: every recorded run must be a behaviour of TraceExec."""
    wd = C.workdir(pid, "tlc")
    chunks, cur, n = [], [], 0
    for t in traces:
        cur.append(t)
        n += len(t)
        if n >= chunk_events:
            chunks.append(cur)
            cur, n = [], 0
    if cur:
        chunks.append(cur)
    cfg = "SPECIFICATION TraceSpec\nPOSTCONDITION TraceAccepted\nCHECK_DEADLOCK FALSE\n"
    accepted = [0]
    rejected = []
    events = [0]

    def do_chunk(ci):
        runs = list(chunks[ci])
        rej = []
        for attempt in range(6):
            if not runs:
                break
            path = os.path.join(wd, f"{tag}_{ci}.ndjson")
            with open(path, "w") as f:
                for t in runs:
                    f.write("\n".join(t) + "\n")
                f.write('{"ev":"eof"}\n')
            rc, text = C.tlc("TraceExec", cfg, wd, f"{tag}_{ci}", workers=1, env={"TRACE": path},
                             java_opts=TRACE_JAVA, heap="3g", timeout=1800)
            if C.tlc_ok(text):
                return len(runs), rej, sum(len(t) for t in runs), 0
            m = re.search(r'<<"TRACE_REJECTED", (\d+), ', text)
            if not m:
                raise C.ToolError(f"trace validation failed without a verdict: {wd}/{tag}_{ci}.out\n" + text[-1500:])
            d = int(m.group(1))
            acc = 0
            hit = None
            for i, t in enumerate(runs):
                if acc < d <= acc + len(t):
                    hit = (i, d - acc)
                    break
                acc += len(t)
            if hit is None:
                # rejected at the eof line: the last run did not terminate
                hit = (len(runs) - 1, len(runs[-1]) + 1)
            i, off = hit
            rej.append((runs[i], off))
            runs = runs[:i] + runs[i + 1:]
        else:
            return 0, rej, 0, len(runs)
        return len(runs), rej, sum(len(t) for t in runs), 0

    skipped = 0
    with ThreadPoolExecutor(max_workers=workers) as ex:
        for a, rej, ev, sk in ex.map(do_chunk, range(len(chunks))):
            accepted[0] += a
            events[0] += ev
            rejected.extend(rej)
            skipped += sk
    for t, off in rejected:
        h = run_header(t)
        P = h["prog"]
        bad_ev = json.loads(t[off - 1]) if off - 1 < len(t) else {"ev": "<trace ended before the run terminated>"}
        sig = (sig_fn(h, bad_ev) if sig_fn else None) or default_sig(h, bad_ev)
        verdict.violation(sig, {"kind": "trace_rejected", "prog": P, "plan": h["plan"], "gates": h["gates"], "sched": h.get("sched", []),
                                "auto_release": h.get("auto_release", False), "count": h.get("count", False),
                                "macro_source": G.program_fn("p", P), "trace": [json.loads(x) for x in t],
                                "first_unmatched_index": off, "first_unmatched": bad_ev},
                          f"{G.macro_name(P)} depths={[len(b['steps']) for b in P['branches']]} plan={h['plan']}: "
                          f"recorded execution is not a behaviour of the specification; first unmatched event #{off}: "
                          f"{json.dumps({k: v for k, v in bad_ev.items() if k not in ('seq', 'heap', 'tid')})[:300]}")
    return {"accepted": accepted[0], "rejected": len(rejected), "events": events[0], "skipped": skipped,
            "cmd": "TRACE=<chunk>.ndjson tlc -workers 1 -config TraceExec.cfg TraceExec.tla (StateDeque, POSTCONDITION TraceAccepted)"}


def default_sig(h, bad_ev):
    P = h["prog"]
    return (f"trace|{G.macro_name(P)}|depths={[len(b['steps']) for b in P['branches']]}|plan={json.dumps(h['plan'], sort_keys=True)}"
            f"|ev={bad_ev.get('ev')}")


def sample_runs(traces, n=3):
    out = []
    step = max(1, len(traces) // n)
    for t in traces[::step][:n]:
        h = run_header(t)
        evs = []
        for x in t[1:]:
            e = json.loads(x)
            evs.append({k: v for k, v in e.items() if k not in ("seq", "heap", "tid")})
        out.append({"macro_input": G.macro_name(h["prog"]) + "! { " + " ".join(G.macro_input(h["prog"]).split()) + " }",
                    "plan": h["plan"], "gates": h["gates"], "trace": evs[:60]})
    return out
