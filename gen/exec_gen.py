"""Renders JoinExec programs (JSON records emitted by TLC) as Rust functions that
invoke the real macros, and builds/executes the generated crates."""
import json, os, subprocess, shutil, hashlib, re, sys
from concurrent.futures import ThreadPoolExecutor

VERIF = os.path.dirname(os.path.dirname(os.path.abspath(__file__)))
REPO = os.environ.get("VERIF_REPO", "/repo")
TARGET = os.path.join(VERIF, "harness", "target")

SYM = {"map": "|>", "and_then": "=>", "or_else": "<=", "map_err": "!>", "then": "->",
       "inspect": "??", "or": "<|", "dot": "..", "filter": "?>", "job": "->", "force": "->"}

ALIASES = {"join_spawn": "spawn", "try_join_spawn": "try_spawn",
           "join_async_spawn": "async_spawn", "try_join_async_spawn": "try_async_spawn"}


def macro_name(P):
    if P.get("macro"):
        return P["macro"]
    k = P["kind"]
    n = ("try_" if k["try"] else "") + "join" + ("_async" if k["async"] else "") + ("_spawn" if k["spawn"] else "")
    return n


def carrier_ty(P):
    return "rt::Opt" if P["carrier"] == "opt" else "rt::Res"


BOUNDS = False      # C19 bounds mode: non-Send tokens (rt feature `nosend`), closures borrow a caller-stack Cell
TICK = "__c.set(__c.get() + 1); "


def tick(c, lazy=False):
    """`|args| body` -> `|args| { tick; body }` in bounds mode.  With `lazy_branches(true)` the branch expression sits inside a
    `move ||` closure that returns it: a user closure in there has to take the borrowed Cell along (`move`), or it would borrow
    from that closure's environment (a restriction of Rust closures, with or without the macro)"""
    if not BOUNDS:
        return c
    k = c.index("|", c.index("|") + 1) if not c.startswith("||") else 1
    return ("move " if lazy else "") + c[:k + 1] + " { " + TICK + c[k + 1:].strip() + " }"


def closure(P, it, b):
    return tick(closure0(P, it, b), P.get("opts", {}).get("lazy") == "true")


def closure0(P, it, b):
    """the callback closure for an item (without operand-evaluation wrapper)"""
    op, i = it["op"], it["id"]
    a = P["kind"]["async"]
    opt = P["carrier"] == "opt"
    if a:
        return {
            "map": f"|r: rt::Res| rt::am({i}, r)",
            "and_then": f"|t: rt::Tok| rt::aa({i}, t)",
            "or_else": f"|e: rt::Fail| rt::ao({i}, e)",
            "map_err": f"|e: rt::Fail| rt::ae({i}, e)",
            "then": f"|f| rt::at({i}, f)",
            "inspect": f"|r: &rt::Res| rt::ai({i}, r)",
        }[op]
    if opt:
        return {
            "map": f"|t: rt::Tok| rt::m({i}, t)",
            "and_then": f"|t: rt::Tok| rt::oa({i}, t)",
            "or_else": f"|| rt::oo({i}, {b})",
            "then": f"|r: rt::Opt| rt::ot({i}, {b}, r)",
            "inspect": f"|r: &rt::Opt| rt::oi({i}, r)",
            "filter": f"|t: &rt::Tok| rt::of({i}, t)",
        }[op]
    return {
        "map": f"|t: rt::Tok| {{ return rt::m({i}, t); }}",      # (a callback is a function boundary, too)
        "and_then": f"|t: rt::Tok| rt::a({i}, t)",
        "or_else": f"|e: rt::Fail| rt::o({i}, e)",
        "map_err": f"|e: rt::Fail| rt::e({i}, e)",
        "then": f"|r: rt::Res| rt::t({i}, r)",
        "inspect": f"|r: &rt::Res| rt::i({i}, r)",
        "job": f"|r: rt::Res| rt::job({i}, r)",      # lazy_branches(false) + threads: the branch evaluates to the closure its thread runs
    }[op]


def name_of(b):
    return f"x{b}"


def nested_spawn_expr(path, depth, try_):
    """a thread-spawning macro nested `depth` levels deep; every branch callback logs the thread it runs on"""
    m = "try_join_spawn" if try_ else "join_spawn"
    p0 = ", ".join(str(x) for x in path + [0])
    p1 = ", ".join(str(x) for x in path + [1])
    deeper = (nested_spawn(path + [1], depth - 1, not try_) + "; ") if depth > 1 else ""
    return (f"{m}! {{ Some(0u8) |> move |v| {{ rt::nest(&[{p0}]); v }}, "
            f"Some(1u8) |> move |v| {{ {deeper}rt::nest(&[{p1}]); v }} }}")


def nested_spawn(path, depth, try_):
    return "let _ = " + nested_spawn_expr(path, depth, try_)


def with_nest(P, it, b, k, c):
    """wraps the body of closure text `|params| body` with the nested macro if the item asks for it"""
    n = it.get("nest", 0)
    if not n:
        return c
    active = sum(1 for B in P["branches"] if len(B["steps"]) > k)
    path = [b] if (P["kind"]["spawn"] and not P["kind"]["async"] and active > 1) else []
    head, body = c.split("| ", 1)
    if P.get("nestfn") or P.get("nestfn_"):
        # the nested invocation stands in ONE helper function that the callbacks of several branches (threads) call
        return f"{head}| {{ __nestfn(&[{', '.join(str(x) for x in path)}]); {body} }}"
    return f"{head}| {{ {nested_spawn(path, n, False)}; {body} }}"


def operand(P, it, b, k=0):
    op, i, form = it["op"], it["id"], it["form"]
    if op == "dot":
        return f"dot({i})"
    if op == "force":      # calls the closure the branch's initial expression evaluated to
        return "rt::force"
    if op == "or":
        f = "rt::oalt" if P["carrier"] == "opt" else "rt::alt"
        return f"{f}({i}, {b})"
    c = with_nest(P, it, b, k, closure(P, it, b))
    if form == "closure":
        return c
    if form == "call":
        return f"({{ rt::opnd({i}); {c} }})"
    if form == "block":
        reads = ", ".join(f"({rb}, rt::snap(&{name_of(rb)}), rt::wrapped(&{name_of(rb)}))" for rb in it.get("reads", []))
        # a `let mut` name must be usable as such wherever it can be read
        muts = "".join(f"rt::mutate(&mut {name_of(rb)}); " for rb in it.get("reads", []) if P["branches"][rb]["name"] == "letmut")
        return f"{{ {muts}rt::cap({i}, &[{reads}]); {c} }}"
    raise ValueError(form)


def branch_src(P, b):
    B = P["branches"][b]
    a = P["kind"]["async"]
    opt = P["carrier"] == "opt"
    iid = B["iid"]
    if a:
        f, fq = "rt::ainit", "rt::ainit_q"
    elif opt:
        f, fq = "rt::oinit", "rt::oinit_q"
    else:
        f, fq = "rt::init", "rt::init_q"
    if b in P.get("ninit", []):
        # the initial expression is a bare nested macro invocation; `->` turns its value into the branch's initial value
        assert P["kind"]["spawn"] and not a
        path = [b] if len(P["branches"]) > 1 else []
        s = f"{nested_spawn_expr(path, 1, False)} -> move |_| {f}({iid}, {b})"
    elif B["init"] == "await":
        # the initial expression awaits something itself, inside the macro's future
        assert a
        s = f"rt::ainit_after(rt::wait({iid + 9}).await, {iid}, {b})"
    elif B["init"] == "thunk":
        s = f"move || {f}({iid}, {b})"
    elif B["init"] == "block":
        s = f"{{ rt::cap({iid}, &[]); {fq}({iid}, {b}) }}"
    else:
        s = f"{f}({iid}, {b})"
    pre = {"none": "", "let": f"let {name_of(b)} = ", "letmut": f"let mut {name_of(b)} = "}[B["name"]]
    parts = [pre + s]
    # sync try macros with transpose_results(false) hand UNWRAPPED values to the next step: and_then there is `-> f`
    unwrapped = P["kind"]["try"] and not a and P["opts"].get("transpose") == "false"
    for k, items in enumerate(B["steps"]):
        for j, it in enumerate(items):
            tilde = "~" if (k > 0 and j == 0) else ""
            sym = SYM[it["op"]]
            if unwrapped and k > 0 and j == 0 and it["op"] == "and_then":
                sym = "->"
            parts.append(f"{tilde}{sym} {operand(P, it, b, k)}")
    return " ".join(parts)


def handler_src(P):
    h = P["handler"]
    if h == "none":
        return None
    n = len(P["branches"])
    a = P["kind"]["async"]
    opt = P["carrier"] == "opt"
    argty = "rt::Tok" if h in ("map", "and_then") else carrier_ty(P)
    pn = [f"a{i}" for i in range(n)]
    if P.get("hperm"):
        # parameters spelled like the branches' `let` names, rotated by one: position i is called like branch i+1
        pn = [name_of((i + 1) % n) for i in range(n)]
    params = ", ".join(f"{pn[i]}: {argty}" for i in range(n))
    arr = ", ".join(f"{pn[i]}.into()" for i in range(n))
    hid = P.get("hid", 0)
    if h == "map":
        body = f"rt::h(&mut [{arr}])"
    elif h == "and_then":
        if a:
            body = f"rt::ahrf({hid}, &mut [{arr}])"
        else:
            body = f"rt::ho(&mut [{arr}])" if opt else f"rt::hr(&mut [{arr}])"
    else:
        body = f"rt::aht({hid}, &mut [{arr}])" if a else f"rt::h(&mut [{arr}])"
    # the body leaves the closure with `return`: a handler is a function boundary, its value is what the macro goes on with
    c = tick(f"|{params}| {{ return {body}; }}")
    if P.get("hform", "closure") == "call":
        c = f"({{ rt::hx(); {c} }})"
    return f"{h} => {c}"


def opts_src(P):
    o = P["opts"]
    a = P["kind"]["async"]
    t = P["kind"]["try"]
    parts = {}
    if o.get("path", "default") == "custom":
        # a re-export under another path; crates holding such programs have no dependency called `futures` (write_workspace),
        # so every path the expansion emits must go through the option
        parts["path"] = "futures_crate_path(::rt::fx)"
    j = o.get("joiner", "none")
    if j != "none":
        if a:
            m = {"eager": "rt::atj!" if t else "rt::aj!", "lazy": "rt::altj!" if t else "rt::alj!"}[j]
        else:
            m = {"eager": "rt::jm!", "lazy": "rt::ljm!", "try": "rt::tjm!"}[j]
            if P.get("jfn"):       # a generic function as joiner (all multi-branch steps of the program have the same arity)
                assert j == "lazy"
                m = f"rt::lfj{len(P['branches'])}"
        parts["joiner"] = f"custom_joiner({m})"
    if o.get("transpose", "default") != "default":
        parts["transpose"] = f"transpose_results({o['transpose']})"
    if o.get("lazy", "default") != "default":
        parts["lazy"] = f"lazy_branches({o['lazy']})"
    order = o.get("order") or ["path", "joiner", "transpose", "lazy"]
    return " ".join(parts[k] for k in order if k in parts)


def macro_input(P):
    n = len(P["branches"])
    items = [branch_src(P, b) for b in range(n)]
    h = handler_src(P)
    if h is not None:
        pos = P.get("hpos", n)
        items.insert(min(pos, n), h)
    if h is not None and P.get("hnocomma") and 1 <= min(P.get("hpos", n), n):
        # the comma between a branch that ends in a block and the handler is optional: leave it out
        k = min(P.get("hpos", n), n)
        items[k - 1:k + 1] = [items[k - 1] + "\n        " + items[k]]
    body = ",\n        ".join(items)
    o = opts_src(P)
    return (o + "\n        " if o else "") + body


def canon_fn(P):
    n = len(P["branches"])
    t = P["kind"]["try"]
    opt = P["carrier"] == "opt"
    h = P["handler"]
    if h == "then":
        return "rt::r_one"
    if h in ("map", "and_then"):
        return "rt::r_otry1" if opt else "rt::r_try1"
    if t:
        if n == 1:
            return "rt::r_otry1" if opt else "rt::r_try1"
        return "rt::r_otry" if opt else "rt::r_try"
    return "rt::r_one" if n == 1 else "rt::r_tuple"


def program_fn(name, P):
    m = macro_name(P)
    if P.get("fwd"):
        # through a forwarding macro_rules! wrapper: the user's tokens arrive with the caller's hygiene context
        body = program_fn(name, {k: v for k, v in P.items() if k != "fwd"})
        fwd = f"    macro_rules! __fwd {{ ($($t:tt)*) => {{ {m}! {{ $($t)* }} }} }}\n"
        head, rest = body.split("{\n", 1)
        return head + "{\n" + fwd + rest.replace(f"{m}! {{", "__fwd! {", 1)
    inp = macro_input(P)
    cf = canon_fn(P)
    if P.get("nestfn"):
        body = program_fn(name, {k: v for k, v in P.items() if k != "nestfn"} | {"nestfn_": True})
        helper = ("    fn __nestfn(p: &[i64]) {\n        let (q0, q1) = ([p, &[0][..]].concat(), [p, &[1][..]].concat());\n"
                  "        let _ = join_spawn! { Some(0u8) |> move |v| { rt::nest(&q0); v }, Some(1u8) |> move |v| { rt::nest(&q1); v } };\n    }\n")
        head, rest = body.split("{\n", 1)
        return head + "{\n" + helper + rest
    a, sp = P["kind"]["async"], P["kind"]["spawn"]
    cell = "    let __cell = std::cell::Cell::new(0i64);\n    let __c = &__cell;\n" if BOUNDS else ""
    if not a:
        return (f"#[allow(unused_mut, unused_variables, unused_parens, unused_braces)]\n"
                f"pub fn {name}() -> Value {{\n{cell}    let r = {m}! {{\n        {inp}\n    }};\n    {cf}(r)\n}}\n")
    ty = "rt::BoxFut" if sp else "rt::LocalBoxFut"
    if BOUNDS:
        # the macro's future borrows `__cell`, which lives in the surrounding future: not 'static, not Send
        assert not sp
        return (f"#[allow(unused_mut, unused_variables, unused_parens, unused_braces)]\n"
                f"pub fn {name}() -> {ty} {{\n    Box::pin(async move {{\n{cell}    let fut = {m}! {{\n        {inp}\n    }};\n"
                f"    let r = fut.await; {cf}(r) }})\n}}\n")
    return (f"#[allow(unused_mut, unused_variables, unused_parens, unused_braces)]\n"
            f"pub fn {name}() -> {ty} {{\n    let fut = {m}! {{\n        {inp}\n    }};\n"
            f"    Box::pin(async move {{ let r = fut.await; {cf}(r) }})\n}}\n")


def prog_kind_tag(P):
    if not P["kind"]["async"]:
        return "Sync"
    return "Tasks" if P["kind"]["spawn"] else "Async"


CARGO_TOML = """[package]
name = "{name}"
version = "0.1.0"
edition = "2018"

[[bin]]
name = "{name}"
path = "src/main.rs"

[dependencies]
join = {{ path = "{repo}/join" }}
rt = {{ path = "{verif}/harness/rt"{rtfeat} }}
serde_json = "1.0"
{futdep}tokio = {{ version = "1.0.1", features = ["full"] }}
"""

WS_TOML = """[workspace]
members = [{members}]
resolver = "2"

[profile.dev]
debug = 0
opt-level = 0
incremental = false
"""


def write_workspace(ws_dir, crates):
    """crates: {crate_name: [(fn_name, P)]}. Returns {crate_name: {fn_name: (first_line, last_line)}}"""
    if os.path.isdir(ws_dir):
        shutil.rmtree(ws_dir)
    os.makedirs(os.path.join(ws_dir, ".cargo"))
    shutil.copy(os.path.join(VERIF, "harness", "Cargo.lock"), os.path.join(ws_dir, "Cargo.lock"))
    with open(os.path.join(ws_dir, ".cargo", "config.toml"), "w") as f:
        f.write(f'[net]\noffline = true\n[build]\ntarget-dir = "{TARGET}"\n')
    with open(os.path.join(ws_dir, "Cargo.toml"), "w") as f:
        f.write(WS_TOML.format(members=", ".join(f'"{c}"' for c in crates)))
    spans = {}
    for cname, progs in crates.items():
        d = os.path.join(ws_dir, cname, "src")
        os.makedirs(d)
        with open(os.path.join(ws_dir, cname, "Cargo.toml"), "w") as f:
            nofut = all(P.get("opts", {}).get("path", "default") == "custom" for _, P in progs)
            f.write(CARGO_TOML.format(name=cname, repo=REPO, verif=VERIF, rtfeat=', features = ["nosend"]' if BOUNDS else "",
                                      futdep="" if nofut else 'futures = "0.3.0"\n'))
        lines = ["#![allow(clippy::all)]", '#![recursion_limit = "1024"]', "#[allow(unused_imports)]", "use join::*;",
                 "#[allow(unused_imports)]", "use rt::Dot;", "use serde_json::Value;", ""]
        sp = {}
        for fn, P in progs:
            src = program_fn(fn, P)
            first = len(lines) + 1
            lines.extend(src.rstrip("\n").split("\n"))
            sp[fn] = (first, len(lines))
            lines.append("")
        table = ", ".join(f'("{fn}", rt::Prog::{prog_kind_tag(P)}({fn}))' for fn, P in progs)
        lines.append(f"fn main() {{ rt::main_loop(&[{table}]); }}")
        with open(os.path.join(d, "main.rs"), "w") as f:
            f.write("\n".join(lines) + "\n")
        spans[cname] = sp
    return spans


def cargo_build(ws_dir, jobs=None):
    """Builds the workspace; returns (ok, diagnostics) where diagnostics is a list of
    (crate, line, rendered message) for errors."""
    cmd = ["cargo", "build", "--offline", "--keep-going", "--message-format=json"]
    if jobs:
        cmd += ["-j", str(jobs)]
    env = dict(os.environ, RUST_BACKTRACE="0", CARGO_TERM_COLOR="never")
    p = subprocess.run(cmd, cwd=ws_dir, env=env, stdout=subprocess.PIPE, stderr=subprocess.PIPE, text=True)
    diags = []
    for line in p.stdout.splitlines():
        try:
            m = json.loads(line)
        except Exception:
            continue
        if m.get("reason") == "compiler-message" and m["message"].get("level") == "error":
            msg = m["message"]
            spans = [s for s in msg.get("spans", []) if s.get("is_primary")] or msg.get("spans", [])
            # follow macro expansion back to the call site in the generated file
            ln = None
            fname = None
            for s in spans:
                t = s
                while t.get("expansion") and t["expansion"].get("span"):
                    t = t["expansion"]["span"]
                ln = t.get("line_start")
                fname = t.get("file_name")
                break
            diags.append((m.get("target", {}).get("name"), fname, ln, msg.get("rendered", msg.get("message", ""))))
    return p.returncode == 0, diags, p.stderr


def run_crate(ws_dir, cname, runs, out_path, timeout=1200):
    runs_path = out_path + ".runs"
    with open(runs_path, "w") as f:
        for r in runs:
            f.write(json.dumps(r) + "\n")
    exe = os.path.join(TARGET, "debug", cname)
    env = dict(os.environ, RUST_BACKTRACE="0")
    p = subprocess.run([exe, runs_path, out_path], env=env, stdout=subprocess.PIPE, stderr=subprocess.PIPE,
                       text=True, timeout=timeout)
    return p.returncode, p.stderr
