"""sem engine pipeline (C01, C02)."""
import json, os, time, subprocess
from concurrent.futures import ThreadPoolExecutor
import common as C
import exec_gen as G
import sem_gen as SG


def enumerate_chains(pid, tier, family, maxlen, invariants, keep, simulate=None):
    """exhaustive up to maxlen, or (simulate=(num, depth)) random walks through the graph of well-typed chains"""
    wd = C.workdir(pid, "tlc")
    cfg = (f'SPECIFICATION Spec\nCONSTANTS Family = "{family}" Tier = "{tier}" MaxLen = {maxlen}\n'
           f'INVARIANTS {" ".join(invariants)} EmitChain\nCHECK_DEADLOCK FALSE\n')
    tag = f"sem_{family}" + ("_sim" if simulate else "")
    extra = ["-simulate", f"num={simulate[0]}", "-depth", str(simulate[1]), "-seed", str(C.seed())] if simulate else None
    rc, text = C.tlc("JoinSem", cfg, wd, tag, workers=8 if not simulate else 4, timeout=3000, extra=extra)
    if simulate:
        v = C.tlc_violation(text)
        seen = {}
        for c in C.tagged_lines(text, "CHAIN"):
            if keep(c):
                seen.setdefault(json.dumps([c["start"], c["items"]], sort_keys=True), c)
        import random
        chains = sorted(seen.values(), key=lambda c: json.dumps([c["start"], c["items"]], sort_keys=True))
        random.Random(C.seed()).shuffle(chains)
        chains = chains[:simulate[2] if len(simulate) > 2 else 5000]
        with open(os.path.join(wd, tag + ".out"), "w") as f:
            f.write(f"{len(chains)} distinct chains from {simulate[0]} random walks of depth {simulate[1]}; violated={v}\n")
        return chains, len(chains), len(chains), v, f"tlc -simulate num={simulate[0]} -depth {simulate[1]} -seed {C.seed()} -config {tag}.cfg JoinSem.tla (Family={family}, MaxLen={maxlen})"
    v = C.tlc_violation(text)
    if v is None and not C.tlc_ok(text):
        raise C.ToolError(f"TLC failed on JoinSem family {family}: {wd}/sem_{family}.out\n" + text[-1500:])
    chains = [c for c in C.tagged_lines(text, "CHAIN") if keep(c)]
    s, t = C.tlc_stats(text)
    with open(os.path.join(wd, f"sem_{family}.out"), "w") as f:
        f.write(f"{len(chains)} chains kept; {s} states; violated={v}\n")
    cmd = f"tlc -workers 8 -config sem_{family}.cfg JoinSem.tla (Family={family}, MaxLen={maxlen}; {' '.join(invariants)})"
    return chains, s, t, v, cmd


def chain_text(chain, variant="join"):
    if variant.startswith("nest"):
        return f"[{variant}] x: {chain['start']} " + SG.macro_chain(chain, [])
    return f"{variant}! {{ x: {chain['start']} " + SG.macro_chain(chain, []) + " }"


def run(pid, entries, verdict, ncrates=16):
    """entries: [(name, chain, variant)] -> observations {name: [ {k, mv, mcalls, tv, tcalls} ]}"""
    # at most ~2 300 functions per crate (a rustc process of that size takes 2.5-4 GB): big corpora get more crates, and then
    # at most 10 of them are compiled at a time (16 parallel rustc processes of a thorough corpus exhausted 62 GB)
    ncr = max(1, min(max(ncrates, (len(entries) + 2299) // 2300), (len(entries) + 19) // 20))
    jobs = 10 if ncr > ncrates else None
    crates = {}
    for i, e in enumerate(entries):
        crates.setdefault(f"{pid.lower()}_sem_{i % ncr}", []).append(e)
    ws = os.path.join(C.workdir(pid), "ws")
    bad_m, bad_t = {}, {}
    t0 = time.time()
    for attempt in range(4):
        cr = {c: [e for e in es if e[0] not in bad_m and e[0] not in bad_t] for c, es in crates.items()}
        cr = {c: es for c, es in cr.items() if es}
        if not cr:
            break
        spans = SG.write_workspace(ws, cr)
        ok, diags, err = G.cargo_build(ws, jobs)
        if ok:
            crates = cr
            break
        hit = False
        for cname, fname, ln, msg in diags:
            sp = spans.get(cname)
            if sp is None or ln is None or fname is None or not fname.endswith("main.rs"):
                continue
            for fn, (a, b) in sp.items():
                if a <= ln <= b:
                    hit = True
                    (bad_m if fn.startswith("m_") else bad_t).setdefault(fn[2:], msg)
        if not hit:
            raise C.ToolError("cargo build of the sem corpus failed outside any chain function:\n" + err[-3000:])
    else:
        raise C.ToolError("cargo build of the sem corpus still failing after removing non-compiling chains")
    build_s = time.time() - t0
    outdir = C.workdir(pid, "obs")

    def go(c):
        out = os.path.join(outdir, f"{c}.ndjson")
        p = subprocess.run([os.path.join(G.TARGET, "debug", c), out], env=dict(os.environ, RUST_BACKTRACE="0"),
                           stdout=subprocess.PIPE, stderr=subprocess.PIPE, text=True, timeout=1200)
        if p.returncode != 0:
            raise C.ToolError(f"sem binary {c} exited {p.returncode}: {p.stderr[-1500:]}")
        return out

    obs = {}
    with ThreadPoolExecutor(max_workers=16) as ex:
        for out in ex.map(go, list(crates.keys())):
            with open(out) as f:
                for line in f:
                    o = json.loads(line)
                    obs.setdefault(o["id"], []).append(o)
    return obs, bad_m, bad_t, build_s


def tlc_judge(pid, records):
    """TraceSem: Eval(chain, input) = (observed value, observed calls) for every record.
    Returns the set of indices TLC rejected, or None for records it could not reach (too many rejections)."""
    import re
    wd = C.workdir(pid, "tlc")
    n = len(records)
    size = 4000
    chunks = [list(range(k, min(k + size, n))) for k in range(0, n, size)]
    cfg = 'SPECIFICATION TSpec\nCONSTANTS Family = "none" Tier = "quick" MaxLen = 0\nPOSTCONDITION Accepted\nCHECK_DEADLOCK FALSE\n'

    def go(ci):
        idx = list(chunks[ci])
        rej = []
        for attempt in range(10):
            if not idx:
                break
            path = os.path.join(wd, f"semobs_{ci}.ndjson")
            with open(path, "w") as f:
                for k in idx:
                    f.write(json.dumps(records[k]) + "\n")
            rc, text = C.tlc("TraceSem", cfg, wd, f"semobs_{ci}", workers=1, env={"TRACE": path},
                             java_opts="-Xss1g -Dtlc2.tool.queue.IStateQueue=StateDeque", heap="3g", timeout=1800)
            if C.tlc_ok(text):
                return rej, []
            m = re.search(r'<<"SEM_REJECTED", (\d+)>>', text)
            if not m:
                # an evaluation error inside Eval on an observed (ill-shaped) value counts as a rejection of that record
                m2 = re.search(r"(\d+) states generated", text)
                if not m2:
                    raise C.ToolError(f"TraceSem failed without a verdict: {wd}/semobs_{ci}.out\n" + text[-1500:])
                d = int(m2.group(1))
            else:
                d = int(m.group(1))
            d = max(1, min(d, len(idx)))
            rej.append(idx[d - 1])
            idx = idx[:d - 1] + idx[d:]
        else:
            return rej, idx
        return rej, []

    rejected, unknown = set(), set()
    with ThreadPoolExecutor(max_workers=8) as ex:
        for rej, unk in ex.map(go, range(len(chunks))):
            rejected.update(rej)
            unknown.update(unk)
    return rejected, unknown


def judge(pid, entries, obs, bad_m, bad_t, verdict):
    """three-way oracle: macro vs TLA+ specification vs plain-Rust twin.  Whether the macro's observation equals the
    specification is decided by TLC (TraceSem); the twin is compared with the expectation TLC emitted."""
    ok = 0
    spec_wrong = []
    byname = {n: (c, v) for n, c, v in entries}
    for n, msg in bad_m.items():
        c, v = byname[n]
        if n in bad_t:
            spec_wrong.append(f"chain {chain_text(c, v)} compiles neither as macro nor as plain Rust: {bad_t[n].splitlines()[0][:150]}")
            continue
        m, t, _ = SG.chain_fns(n, c, v)
        verdict.violation(f"sem-compile|{chain_text(c, v)}", {"kind": "compile_error", "chain": c, "variant": v, "macro_source": m,
                                                               "twin_source": t, "diagnostic": msg},
                          f"well-typed chain does not compile in the macro (its plain-Rust twin does): {chain_text(c, v)}: "
                          f"{msg.splitlines()[0][:160]}")
    for n, msg in bad_t.items():
        if n not in bad_m:
            c, v = byname[n]
            spec_wrong.append(f"twin of {chain_text(c, v)} does not compile: {msg.splitlines()[0][:150]}")
    evals = 0
    records, keys = [], []
    for n, c, v in entries:
        if n in bad_m or n in bad_t:
            continue
        cases = SG.sorted_cases(c, v)
        for o in obs.get(n, []):
            exp = cases[o["k"]]
            if isinstance(o["mv"], dict) and o["mv"].get("t") == "panic":
                continue
            records.append({"chain": {"start": c["start"], "items": c["items"]}, "inp": exp["inp"], "v": o["mv"], "calls": o["mcalls"],
                            "try": SG.try_sem(v) and bool(c.get("tcases"))})
            keys.append((n, o["k"]))
    rejected, unknown = tlc_judge(pid, records)
    tlc_says = {}
    for k, key in enumerate(keys):
        tlc_says[key] = None if k in unknown else (k not in rejected)
    for n, c, v in entries:
        if n in bad_m or n in bad_t:
            continue
        cases = SG.sorted_cases(c, v)
        for o in obs.get(n, []):
            evals += 1
            exp = cases[o["k"]]
            e = (exp["v"], exp["calls"])
            m = (o["mv"], o["mcalls"])
            t = (o["tv"], o["tcalls"])
            agree = tlc_says.get((n, o["k"]))
            if agree is None:
                agree = (m == e)      # beyond TLC's rejection budget for the chunk: equality with the expectation TLC emitted
            if agree:
                ok += 1
                if t != e:
                    spec_wrong.append(f"twin differs from specification and macro on {chain_text(c, v)} input {exp['inp']}")
                continue
            if t == e:
                ms, ts, _ = SG.chain_fns(n, c, v)
                what = "value" if m[0] != e[0] else "call trace"
                verdict.violation(f"sem|{what}|{chain_text(c, v)}|k={o['k']}",
                                  {"kind": "sem_mismatch", "chain": c, "variant": v, "input": exp["inp"], "expected": {"v": e[0], "calls": e[1]},
                                   "macro": {"v": m[0], "calls": m[1]}, "twin": {"v": t[0], "calls": t[1]}, "macro_source": ms, "twin_source": ts},
                                  f"{chain_text(c, v)} on input {json.dumps(exp['inp'])}: macro {what} differs from the documented method chain "
                                  f"(specification = plain-Rust twin): macro={json.dumps(m[0])[:120]} expected={json.dumps(e[0])[:120]}")
            elif m == t:
                spec_wrong.append(f"specification disagrees with both macro and twin on {chain_text(c, v)} input {json.dumps(exp['inp'])}: "
                                  f"spec={json.dumps(e)[:200]} real={json.dumps(m)[:200]}")
            else:
                spec_wrong.append(f"macro, twin and specification all differ on {chain_text(c, v)} input {json.dumps(exp['inp'])}")
    return ok, evals, spec_wrong
