------------------------------ MODULE JoinLex ------------------------------
(***************************************************************************)
(* C14: how a token stream is split into branches, operators and operands.  *)
(* Implementation-shaped model of                                           *)
(*   parse_until            (parse/utils.rs:40-128)     -> ScanUnit         *)
(*   the determiner table   (join/parse.rs:32-70)       -> Rows, Match      *)
(*   the n-operand parsers  (chain/expr/macros.rs)      -> ParseOperands    *)
(*   the chain builder      (action_expr_chain/builder.rs:54-148) -> ScanChain *)
(*   the branch/handler loop (join/parse.rs:131-147)    -> ScanAll          *)
(* over token trees: punctuation characters with their spacing (syn peeks   *)
(* character-wise; only the two-character syn tokens `->` `=>` `<=` `..`     *)
(* require the first character to be joint), identifiers, opaque delimited   *)
(* groups and atoms.  "The tokens so far parse as Expr / Type" is not        *)
(* re-implemented: operands come from a catalogue of token sequences whose   *)
(* complete prefixes are known by construction (validated against syn by     *)
(* harness/libdrv on every run).                                            *)
(* Property: for every structure S of the family, Scan(Render(S)) = S, where *)
(* Render is the documented concrete syntax.  That covers: look-alikes inside *)
(* groups / incomplete operands never split, overlapping operators resolve   *)
(* to the longest, `~` / `>>>` attach to exactly one operator.               *)
(***************************************************************************)
EXTENDS Integers, Sequences, FiniteSets, TLC, Json

CONSTANTS Family, Tier

VARIABLES str    \* the structure under test (chosen by Pick)
lvars == <<str>>

---------------------------------------------------------------------------
\* tokens: [k: "p" punct | "id" | "g" group | "a" atom, c: char / name / delimiter, j: joint,
\*          tx: text, inst: operand instance (0 = not part of an operand), off: offset in it, ent: catalogue entry]
P(c, j)  == [k |-> "p", c |-> c, j |-> j, tx |-> c, inst |-> 0, off |-> 0, ent |-> 0]
Id(n)    == [k |-> "id", c |-> n, j |-> FALSE, tx |-> n, inst |-> 0, off |-> 0, ent |-> 0]
G(d, tx) == [k |-> "g", c |-> d, j |-> FALSE, tx |-> tx, inst |-> 0, off |-> 0, ent |-> 0]
A(tx)    == [k |-> "a", c |-> "", j |-> FALSE, tx |-> tx, inst |-> 0, off |-> 0, ent |-> 0]

\* a symbol written without inner spaces: every character but the last is joint
RECURSIVE SymToks(_, _)
SymToks(chars, i) == IF i > Len(chars) THEN <<>> ELSE <<P(chars[i], i < Len(chars))>> \o SymToks(chars, i + 1)

---------------------------------------------------------------------------
\* the determiner table, in the order of the code.  A pattern element is
\*   <<"c", ch>> punctuation char, any spacing     <<"cj", ch>> punctuation char that must be joint
\*   <<"id", name>> that identifier                <<"g", d>> a group with that delimiter
\*   <<"hd">> handler head: map / then / and_then followed by `=>`
Row(name, pat, len, sym) == [name |-> name, pat |-> pat, len |-> len, sym |-> sym]
c(ch) == <<"c", ch>>
cj(ch) == <<"cj", ch>>
Rows == <<
  Row("comma",     <<c(",")>>, 0, <<",">>),
  Row("unwrap",    <<c("<"), c("<"), c("<")>>, 3, <<"<", "<", "<">>),
  Row("collect",   <<c("="), c(">"), <<"g", "[">>>>, 3, <<"=", ">">>),       \* rendered `=>[]`
  Row("map",       <<c("|"), c(">")>>, 2, <<"|", ">">>),
  Row("then",      <<cj("-"), c(">")>>, 2, <<"-", ">">>),
  Row("and_then",  <<cj("="), c(">")>>, 2, <<"=", ">">>),
  Row("or",        <<c("<"), c("|")>>, 2, <<"<", "|">>),
  Row("or_else",   <<cj("<"), c("=")>>, 2, <<"<", "=">>),
  Row("dot_gt",    <<c(">"), c(".")>>, 2, <<">", ".">>),
  Row("dot",       <<cj("."), c(".")>>, 2, <<".", ".">>),
  Row("map_err",   <<c("!"), c(">")>>, 2, <<"!", ">">>),
  Row("chain",     <<c(">"), c("@"), c(">")>>, 3, <<">", "@", ">">>),
  Row("inspect",   <<c("?"), c("?")>>, 2, <<"?", "?">>),
  Row("filter",    <<c("?"), c(">")>>, 2, <<"?", ">">>),
  Row("find_map",  <<c("?"), c("|"), c(">"), c("@")>>, 4, <<"?", "|", ">", "@">>),
  Row("filter_map", <<c("?"), c("|"), c(">")>>, 3, <<"?", "|", ">">>),
  Row("enumerate", <<c("|"), <<"id", "n">>, c(">")>>, 3, <<"|", "n", ">">>),
  Row("partition", <<c("?"), c("&"), c("!"), c(">")>>, 4, <<"?", "&", "!", ">">>),
  Row("flatten",   <<c("^"), c("^"), c(">")>>, 3, <<"^", "^", ">">>),
  Row("fold",      <<c("^"), c("@")>>, 2, <<"^", "@">>),
  Row("try_fold",  <<c("?"), c("^"), c("@")>>, 3, <<"?", "^", "@">>),
  Row("find",      <<c("?"), c("@")>>, 2, <<"?", "@">>),
  Row("zip",       <<c(">"), c("^"), c(">")>>, 3, <<">", "^", ">">>),
  Row("unzip",     <<c("<"), c("-"), c(">")>>, 3, <<"<", "-", ">">>),
  Row("handler",   <<<<"hd">>>>, 0, <<>>) >>
NRows == Len(Rows)
RowOf(name) == CHOOSE r \in 1 .. NRows : Rows[r].name = name
WrapperRows == {"map", "and_then", "filter", "inspect", "filter_map", "find", "find_map", "partition", "or_else", "map_err"}
OpNames == {Rows[r].name : r \in 2 .. (NRows - 1)}

\* arity of the operand list: "none" | "one" | "two" | "type01" | "type04"
Arity(name) ==
  CASE name \in {"flatten", "enumerate", "unwrap"} -> "none"
    [] name \in {"fold", "try_fold"} -> "two"
    [] name = "collect" -> "type01"
    [] name = "unzip" -> "type04"
    [] OTHER -> "one"

MatchEl(el, toks, i) ==
  /\ i <= Len(toks)
  /\ CASE el[1] = "c"  -> toks[i].k = "p" /\ toks[i].c = el[2]
       [] el[1] = "cj" -> toks[i].k = "p" /\ toks[i].c = el[2] /\ toks[i].j
       [] el[1] = "id" -> toks[i].k = "id" /\ toks[i].c = el[2]
       [] el[1] = "g"  -> toks[i].k = "g" /\ toks[i].c = el[2]
       [] el[1] = "hd" -> /\ toks[i].k = "id" /\ toks[i].c \in {"map", "then", "and_then"}
                          /\ i + 2 <= Len(toks)
                          /\ toks[i + 1].k = "p" /\ toks[i + 1].c = "=" /\ toks[i + 1].j
                          /\ toks[i + 2].k = "p" /\ toks[i + 2].c = ">"
Match(r, toks, i) == \A q \in 1 .. Len(Rows[r].pat) : MatchEl(Rows[r].pat[q], toks, i + q - 1)
\* first matching row in table order (0 = none) - the ONLY place where the order of the table matters
FirstRow(toks, i) ==
  LET m == {r \in 1 .. NRows : Match(r, toks, i)} IN IF m = {} THEN 0 ELSE CHOOSE r \in m : \A q \in m : r <= q
IsTilde(toks, i) == i <= Len(toks) /\ toks[i].k = "p" /\ toks[i].c = "~"
IsWrapper(toks, i) == /\ i + 2 <= Len(toks)
                      /\ \A q \in 0 .. 2 : toks[i + q].k = "p" /\ toks[i + q].c = ">"

---------------------------------------------------------------------------
\* operand catalogue: [kind: "expr"|"type", toks, cp: lengths of the prefixes that parse as `kind`, block: is a {..} block]
Ent(kind, toks, cp, block) == [kind |-> kind, toks |-> toks, cp |-> cp, block |-> block]
\* look-alikes inside nested macro calls and literals: any token soup is legal there
Containers(symtx) ==
  << Ent("expr", <<Id("m"), P("!", FALSE), G("(", "(a " \o symtx \o " b)")>>, {1, 3}, FALSE),
     Ent("expr", <<Id("m"), P("!", FALSE), G("[", "[a " \o symtx \o " b]")>>, {1, 3}, FALSE),
     Ent("expr", <<A("\"" \o symtx \o "\"")>>, {1}, FALSE),
     Ent("expr", <<Id("f"), G("(", "(m!{ a " \o symtx \o " b })")>>, {1, 2}, FALSE) >>
RECURSIVE Cat(_, _)
Cat(q, i) == IF i > Len(q) THEN "" ELSE q[i] \o Cat(q, i + 1)
SymTexts == {Cat(Rows[r].sym, 1) : r \in 1 .. (NRows - 1)} \cup {"=>[]", "~", ">>>", "~=>", "map =>"}
SetToSeq0(S) == CHOOSE q \in [1 .. Cardinality(S) -> S] : \A a, b \in 1 .. Cardinality(S) : a # b => q[a] # q[b]

BaseCatalogue == <<
  Ent("expr", <<Id("f")>>, {1}, FALSE),                                                             \* 1 atom
  Ent("expr", <<Id("f"), G("(", "(x)")>>, {1, 2}, FALSE),                                           \* 2 call
  Ent("expr", <<P("|", FALSE), Id("v"), P("|", FALSE), Id("v"), P("+", FALSE), A("1")>>, {4, 6}, FALSE),          \* 3 closure
  Ent("expr", <<P("|", FALSE), Id("v"), P("|", FALSE), P("-", TRUE), P(">", FALSE), Id("T"), G("{", "{ v }")>>, {7}, FALSE),  \* 4 closure with return type
  Ent("expr", <<Id("f"), P(":", TRUE), P(":", FALSE), P("<", FALSE), Id("A"), P(",", FALSE), Id("B"), P(">", FALSE), G("(", "(x)")>>, {1, 8, 9}, FALSE), \* 5 turbofish
  Ent("expr", <<G("{", "{ f }")>>, {1}, TRUE),                                                      \* 6 block
  Ent("expr", <<P("|", FALSE), Id("a"), P(",", FALSE), Id("b"), P("|", FALSE), Id("a")>>, {6}, FALSE),             \* 7 two-parameter closure (comma inside)
  Ent("expr", <<Id("a"), P(">", FALSE), Id("b")>>, {1, 3}, FALSE),                                  \* 8 comparison
  Ent("expr", <<G("(", "(a <= b)")>>, {1}, FALSE),                                                  \* 9.. look-alikes inside ( ) [ ] { } (valid Rust)
  Ent("expr", <<G("(", "(a..b)")>>, {1}, FALSE),
  Ent("expr", <<G("(", "(|v| -> T { v })")>>, {1}, FALSE),
  Ent("expr", <<G("{", "{ match a { _ => b } }")>>, {1}, TRUE),
  Ent("expr", <<G("(", "(match a { _ => [] })")>>, {1}, FALSE),
  Ent("expr", <<G("(", "(x??)")>>, {1}, FALSE),
  Ent("expr", <<G("(", "(x? > y)")>>, {1}, FALSE),
  Ent("expr", <<G("(", "(a, [b, c])")>>, {1}, FALSE),      \* (a bare `[..]` operand right after `=>` IS `=>[]` by design: excluded)
  Ent("expr", <<G("{", "{ (a, b) }")>>, {1}, TRUE),
  Ent("expr", <<G("(", "(f::<Vec<Vec<Vec<A>>>>())")>>, {1}, FALSE),
  Ent("expr", <<G("(", "(a | b > c)")>>, {1}, FALSE),
  Ent("expr", <<Id("g"), G("(", "(|a, b| a <= b, c)")>>, {1, 2}, FALSE),
  Ent("type", <<Id("T")>>, {1}, FALSE),                                                             \* types
  Ent("type", <<Id("Vec"), P("<", FALSE), G("(", "(A, B)"), P(">", FALSE)>>, {1, 4}, FALSE),        \* 10 generic with comma in a group
  Ent("type", <<Id("Vec"), P("<", FALSE), Id("Vec"), P("<", FALSE), Id("A"), P(">", TRUE), P(">", FALSE)>>, {1, 7}, FALSE),  \* 11 generic ending in >>
  Ent("type", <<Id("Vec"), P("<", FALSE), Id("fn"), G("(", "(A)"), P("-", TRUE), P(">", FALSE), Id("B"), P(">", FALSE)>>, {1, 8}, FALSE), \* 12 fn type inside generics
  Ent("type", <<Id("HashMap"), P("<", FALSE), Id("A"), P(",", FALSE), Id("B"), P(">", FALSE)>>, {1, 6}, FALSE),   \* comma in generics
  Ent("expr", <<A("0")>>, {1}, FALSE),                                                              \* 26 member access by tuple index
  Ent("expr", <<Id("field")>>, {1}, FALSE),                                                         \* 27 field
  Ent("expr", <<Id("f"), P(":", TRUE), P(":", FALSE), P("<", FALSE), Id("A"), P(">", FALSE), G("(", "()")>>, {1, 6, 7}, FALSE),   \* 28 method with turbofish
  \* 29.. shifts and a comparison at the top level of the operand: `<<` / `>>` are two thirds of `<<<` / `>>>`
  Ent("expr", <<P("|", FALSE), Id("v"), P("|", FALSE), Id("v"), P("<", TRUE), P("<", FALSE), A("2")>>, {4, 7}, FALSE),
  Ent("expr", <<P("|", FALSE), Id("v"), P("|", FALSE), Id("v"), P(">", TRUE), P(">", FALSE), A("1")>>, {4, 7}, FALSE),
  Ent("expr", <<Id("a"), P("<", FALSE), Id("b")>>, {1, 3}, FALSE),
  Ent("expr", <<Id("a"), P("<", TRUE), P("<", FALSE), Id("b"), P("<", FALSE), Id("c")>>, {1, 4, 6}, FALSE) >>
NBase == Len(BaseCatalogue)
ExprBase == (1 .. 20) \cup (29 .. 32)
TypeBase == 21 .. 25

\* operand reference: <<"b", i>> base entry i, or <<"c", symtext, j>> container j around a look-alike
EntOf(ref) == IF ref[1] = "b" THEN BaseCatalogue[ref[2]] ELSE Containers(ref[2])[ref[3]]

\* tokens of an operand occurrence, tagged with their instance
Tagged(ref, inst) ==
  LET e == EntOf(ref) IN [q \in 1 .. Len(e.toks) |-> [e.toks[q] EXCEPT !.inst = inst, !.off = q]]
\* do the accumulated tokens parse as `kind`?  (they must be a complete prefix of ONE catalogue operand)
Complete(kind, acc, refs) ==
  IF acc = <<>> THEN kind = "empty"
  ELSE /\ kind # "empty"
       /\ acc[1].inst # 0
       /\ \A q \in 1 .. Len(acc) : acc[q].inst = acc[1].inst /\ acc[q].off = q
       /\ LET e == EntOf(refs[acc[1].inst]) IN e.kind = kind /\ Len(acc) \in e.cp

---------------------------------------------------------------------------
\* structures
\* item: [op, deferred, mv: "none"|"wrap", opnds: Seq(ref)]     (`unwrap` is an op with no operands)
\* branch: [let: "none"|"ident"|"mut", init: ref, items: Seq(item)]
\* S: [branches: Seq(branch), handler: "none"|"map"|"then"|"and_then", hpos: 0..n, trailing: BOOLEAN]
Item(op, d, mv, opnds) == [op |-> op, deferred |-> d, mv |-> mv, opnds |-> opnds]
Branch(lt, init, items) == [let |-> lt, init |-> init, items |-> items]
\* nocomma: the handler follows a branch whose last operand is a block without the (there optional) comma
Struct(bs, h, hpos, tr) == [branches |-> bs, handler |-> h, hpos |-> hpos, trailing |-> tr, nocomma |-> FALSE]

\* ---- Render: the documented concrete syntax.  Returns [toks, refs] (refs: instance -> operand ref)
RECURSIVE RenderOpnds(_, _, _)
RenderOpnds(opnds, q, st) ==     \* st = [toks, refs]
  IF q > Len(opnds) THEN st
  ELSE LET inst == Len(st.refs) + 1
           sep == IF q > 1 THEN <<P(",", FALSE)>> ELSE <<>>
       IN  RenderOpnds(opnds, q + 1, [toks |-> st.toks \o sep \o Tagged(opnds[q], inst), refs |-> Append(st.refs, opnds[q])])

RowSym(op) == IF op = "collect" THEN <<P("=", TRUE), P(">", FALSE), G("[", "[]")>> ELSE
              IF op = "enumerate" THEN <<P("|", FALSE), Id("n"), P(">", FALSE)>> ELSE SymToks(Rows[RowOf(op)].sym, 1)
RECURSIVE RenderItems(_, _, _)
RenderItems(items, q, st) ==
  IF q > Len(items) THEN st
  ELSE LET it == items[q]
           pre == (IF it.deferred THEN <<P("~", TRUE)>> ELSE <<>>) \o RowSym(it.op)
                  \o (IF it.mv = "wrap" THEN SymToks(<<">", ">", ">">>, 1) ELSE <<>>)
       IN  RenderItems(items, q + 1, RenderOpnds(it.opnds, 1, [st EXCEPT !.toks = st.toks \o pre]))

RenderBranch(b, st) ==
  LET pre == CASE b.let = "ident" -> <<Id("let"), Id("x"), P("=", FALSE)>>
               [] b.let = "mut" -> <<Id("let"), Id("mut"), Id("x"), P("=", FALSE)>>
               [] OTHER -> <<>>
      s1 == RenderOpnds(<<b.init>>, 1, [st EXCEPT !.toks = st.toks \o pre])
  IN  RenderItems(b.items, 1, s1)

HandlerToks(h) == <<Id(h), P("=", TRUE), P(">", FALSE), Id("h")>>
RECURSIVE RenderAll(_, _, _)
RenderAll(S, q, st) ==    \* elements 1..n+1 (handler inserted at hpos)
  LET n == Len(S.branches) IN
  IF q > n THEN
     (IF S.handler # "none" /\ S.hpos = n
      THEN [st EXCEPT !.toks = st.toks \o (IF S.nocomma THEN <<>> ELSE <<P(",", FALSE)>>) \o HandlerToks(S.handler) \o (IF S.trailing THEN <<P(",", FALSE)>> ELSE <<>>)]
      ELSE [st EXCEPT !.toks = st.toks \o (IF S.trailing THEN <<P(",", FALSE)>> ELSE <<>>)])
  ELSE LET sep == IF q > 1 /\ ~(S.nocomma /\ S.handler # "none" /\ S.hpos = q - 1) THEN <<P(",", FALSE)>> ELSE <<>>
           hd  == IF S.handler # "none" /\ S.hpos = q - 1 THEN HandlerToks(S.handler) \o <<P(",", FALSE)>> ELSE <<>>
       IN  RenderAll(S, q + 1, RenderBranch(S.branches[q], [st EXCEPT !.toks = st.toks \o sep \o hd]))
Render(S) == RenderAll(S, 1, [toks |-> <<>>, refs |-> <<>>])

---------------------------------------------------------------------------
\* Scan: what the implementation does with a token sequence

\* one unit (parse_until): from index i, returns [acc, next (row or 0), deferred, wrap, end, err]
RECURSIVE ScanUnit(_, _, _, _, _, _)
ScanUnit(toks, refs, i, acc, kind, allowEmpty) ==
  IF i > Len(toks) THEN [acc |-> acc, next |-> 0, deferred |-> FALSE, wrap |-> FALSE, end |-> i, err |-> ""]
  ELSE LET d  == IsTilde(toks, i)
           i2 == IF d THEN i + 1 ELSE i                      \* `~` is erased wherever it stands
           r  == FirstRow(toks, i2)
           stop == r # 0 /\ ((acc = <<>> /\ allowEmpty) \/ Complete(kind, acc, refs))
       IN  IF i2 > Len(toks) THEN [acc |-> acc, next |-> 0, deferred |-> d, wrap |-> FALSE, end |-> i2, err |-> ""]
           ELSE IF stop THEN
             LET isop == Rows[r].name \notin {"comma", "handler"}
                 after == i2 + Rows[r].len
                 w == isop /\ IsWrapper(toks, after)
             IN  IF w /\ Rows[r].name = "unwrap" THEN [acc |-> acc, next |-> r, deferred |-> d, wrap |-> w, end |-> after, err |-> "both"]
                 ELSE IF w /\ Rows[r].name \notin WrapperRows THEN [acc |-> acc, next |-> r, deferred |-> d, wrap |-> w, end |-> after, err |-> "notwrapper"]
                 ELSE [acc |-> acc, next |-> IF isop THEN r ELSE 0, deferred |-> d, wrap |-> w,
                       end |-> IF w THEN after + 3 ELSE after, err |-> ""]
           ELSE ScanUnit(toks, refs, i2 + 1, Append(acc, toks[i2]), kind, allowEmpty)

\* the reference of an accumulated operand (which catalogue occurrence it is), or <<"?">> if it is none
RefOfAcc(kind, acc, refs) ==
  IF Complete(kind, acc, refs) /\ Len(acc) = Len(EntOf(refs[acc[1].inst]).toks) THEN refs[acc[1].inst] ELSE <<"?">>

IsComma(toks, i) == i <= Len(toks) /\ toks[i].k = "p" /\ toks[i].c = ","

\* operands of one action (ActionGroup::parse_stream + the n-unit parsers); returns [opnds, u (last unit), err]
ParseOperands(toks, refs, i, name, wrapped) ==
  IF wrapped \/ Arity(name) = "none"
  THEN LET u == ScanUnit(toks, refs, i, <<>>, "empty", TRUE) IN
       [opnds |-> <<>>, u |-> u, err |-> IF u.err # "" THEN u.err ELSE IF u.acc # <<>> THEN "unexpected tokens" ELSE ""]
  ELSE IF Arity(name) = "one"
  THEN LET u == ScanUnit(toks, refs, i, <<>>, "expr", FALSE) IN
       [opnds |-> <<RefOfAcc("expr", u.acc, refs)>>, u |-> u, err |-> IF u.err # "" THEN u.err ELSE IF RefOfAcc("expr", u.acc, refs) = <<"?">> THEN "operand" ELSE ""]
  ELSE IF Arity(name) = "two"
  THEN LET u1 == ScanUnit(toks, refs, i, <<>>, "expr", FALSE)
           u2 == ScanUnit(toks, refs, u1.end + 1, <<>>, "expr", FALSE)
       IN  IF u1.next # 0 \/ ~IsComma(toks, u1.end) THEN [opnds |-> <<>>, u |-> u1, err |-> "expected 2 units"]
           ELSE [opnds |-> <<RefOfAcc("expr", u1.acc, refs), RefOfAcc("expr", u2.acc, refs)>>, u |-> u2,
                 err |-> IF u2.err # "" THEN u2.err ELSE IF <<"?">> \in {RefOfAcc("expr", u1.acc, refs), RefOfAcc("expr", u2.acc, refs)} THEN "operand" ELSE ""]
  ELSE \* type01 / type04: first try the empty form on a fork
       LET e == ScanUnit(toks, refs, i, <<>>, "empty", TRUE) IN
       IF e.err = "" /\ e.acc = <<>> THEN [opnds |-> <<>>, u |-> e, err |-> ""]
       ELSE IF Arity(name) = "type01"
       THEN LET u == ScanUnit(toks, refs, i, <<>>, "type", FALSE) IN
            [opnds |-> <<RefOfAcc("type", u.acc, refs)>>, u |-> u, err |-> IF u.err # "" THEN u.err ELSE IF RefOfAcc("type", u.acc, refs) = <<"?">> THEN "operand" ELSE ""]
       ELSE LET u1 == ScanUnit(toks, refs, i, <<>>, "type", FALSE)
                u2 == ScanUnit(toks, refs, u1.end + 1, <<>>, "type", FALSE)
                u3 == ScanUnit(toks, refs, u2.end + 1, <<>>, "type", FALSE)
                u4 == ScanUnit(toks, refs, u3.end + 1, <<>>, "type", FALSE)
            IN  IF u1.next # 0 \/ u2.next # 0 \/ u3.next # 0 \/ ~IsComma(toks, u1.end) \/ ~IsComma(toks, u2.end) \/ ~IsComma(toks, u3.end)
                THEN [opnds |-> <<>>, u |-> u1, err |-> "expected 4 units"]
                ELSE [opnds |-> <<RefOfAcc("type", u1.acc, refs), RefOfAcc("type", u2.acc, refs), RefOfAcc("type", u3.acc, refs), RefOfAcc("type", u4.acc, refs)>>,
                      u |-> u4, err |-> u4.err]

\* the chain builder: items of one branch starting after the initial expression's unit u0
RECURSIVE ScanItems(_, _, _, _)
ScanItems(toks, refs, u, items) ==      \* u: the unit that ended with operator u.next
  IF u.next = 0 THEN [items |-> items, end |-> u.end, err |-> ""]
  ELSE LET name == Rows[u.next].name
           po == ParseOperands(toks, refs, u.end, name, u.wrap)
           it == Item(name, u.deferred, IF u.wrap THEN "wrap" ELSE "none", po.opnds)
       IN  IF po.err # "" THEN [items |-> Append(items, it), end |-> po.u.end, err |-> po.err]
           ELSE ScanItems(toks, refs, po.u, Append(items, it))

LastIsBlock(b) ==
  LET lastopnds == IF b.items = <<>> THEN <<b.init>> ELSE b.items[Len(b.items)].opnds IN
  lastopnds # <<>> /\ lastopnds[Len(lastopnds)] # <<"?">> /\ EntOf(lastopnds[Len(lastopnds)]).block

ScanBranch(toks, refs, i) ==
  LET lt == IF i + 1 <= Len(toks) /\ toks[i].k = "id" /\ toks[i].c = "let"
            THEN (IF toks[i + 1].k = "id" /\ toks[i + 1].c = "mut" THEN "mut" ELSE "ident") ELSE "none"
      i0 == CASE lt = "ident" -> i + 3 [] lt = "mut" -> i + 4 [] OTHER -> i
      u0 == ScanUnit(toks, refs, i0, <<>>, "expr", FALSE)
      its == ScanItems(toks, refs, u0, <<>>)
      b == Branch(lt, RefOfAcc("expr", u0.acc, refs), its.items)
      \* branch terminator: optional comma after a block operand, mandatory otherwise (unless at the end)
      e == its.end
      err == IF u0.err # "" THEN u0.err ELSE IF its.err # "" THEN its.err
             ELSE IF b.init = <<"?">> THEN "initial"
             ELSE IF e <= Len(toks) /\ ~IsComma(toks, e) /\ ~LastIsBlock(b) THEN "expected comma" ELSE ""
  IN  [b |-> b, end |-> IF IsComma(toks, e) THEN e + 1 ELSE e, err |-> err]

RECURSIVE ScanAll(_, _, _, _)
ScanAll(toks, refs, i, S) ==
  IF i > Len(toks) THEN [S |-> S, err |-> ""]
  ELSE IF MatchEl(<<"hd">>, toks, i)
  THEN IF S.handler # "none" THEN [S |-> S, err |-> "two handlers"]
       ELSE LET e == i + 4      \* keyword, `=>`, the handler expression `h`
                e2 == IF IsComma(toks, e) THEN e + 1 ELSE e
            IN  ScanAll(toks, refs, e2, [S EXCEPT !.handler = toks[i].c, !.hpos = Len(S.branches), !.nocomma = (i > 1 /\ ~IsComma(toks, i - 1)),
                                                  !.trailing = IsComma(toks, e) /\ e2 > Len(toks)])
  ELSE LET sb == ScanBranch(toks, refs, i) IN
       IF sb.err # "" THEN [S |-> [S EXCEPT !.branches = Append(S.branches, sb.b)], err |-> sb.err]
       ELSE ScanAll(toks, refs, sb.end, [S EXCEPT !.branches = Append(S.branches, sb.b),
                                                  !.trailing = sb.end > Len(toks) /\ IsComma(toks, sb.end - 1)])

Scan(r) == ScanAll(r.toks, r.refs, 1, Struct(<<>>, "none", 0, FALSE))

---------------------------------------------------------------------------
\* families of structures
Ops1 == OpNames \ {"unwrap"}
DefaultOpnds(op) ==
  CASE Arity(op) = "none" -> <<>>
    [] Arity(op) = "two" -> <<<<"b", 1>>, <<"b", 3>>>>
    [] Arity(op) = "type01" -> <<<<"b", 21>>>>
    [] Arity(op) = "type04" -> <<<<"b", 21>>, <<"b", 21>>, <<"b", 22>>, <<"b", 25>>>>
    [] op \in {"dot", "dot_gt"} -> <<<<"b", 2>>>>
    [] OTHER -> <<<<"b", 1>>>>
Flagged(op) ==   \* every flag combination of one operator
  {Item(op, d, mv, IF mv = "wrap" THEN <<>> ELSE DefaultOpnds(op)) : d \in BOOLEAN, mv \in {"none"} \cup (IF op \in WrapperRows THEN {"wrap"} ELSE {})}
AllFlagged == UNION {Flagged(op) : op \in Ops1}
UnwrapItem(d) == Item("unwrap", d, "none", <<>>)

\* adjacency: every ordered pair of flagged operators (the second may also be `<<<` when the first wraps)
FamPairs(dummy) ==
  {Struct(<<Branch("none", <<"b", 1>>, <<a, b>>)>>, "none", 0, FALSE) : a \in AllFlagged, b \in AllFlagged}
  \cup {Struct(<<Branch("none", <<"b", 1>>, <<a, UnwrapItem(d), b>>)>>, "none", 0, FALSE) :
          a \in {x \in AllFlagged : x.mv = "wrap"}, d \in {FALSE}, b \in {y \in AllFlagged : ~y.deferred}}
  \cup {Struct(<<Branch("none", <<"b", 1>>, <<a>>)>>, "none", 0, FALSE) : a \in AllFlagged}
  \cup {Struct(<<Branch("none", <<"b", 1>>, <<Item(op, FALSE, "none", <<>>), b>>)>>, "none", 0, FALSE) : op \in {"collect", "unzip"}, b \in AllFlagged}

\* operands: every operator with an expression / type operand x every catalogue shape x following operator
NextOps == {"collect", "and_then", "find_map", "filter_map", "or", "or_else", "unzip", "then", "map", "dot", "dot_gt", "enumerate", "chain", "zip", "inspect", "find", "fold", "flatten"}
ExprOps == {op \in Ops1 : Arity(op) = "one" /\ op \notin {"dot", "dot_gt"}}
ExprRefs ==
  {<<"b", i>> : i \in ExprBase}
  \cup {<<"c", sx, j>> : sx \in SymTexts, j \in 1 .. 4}
TypeRefs == {<<"b", i>> : i \in TypeBase}
FamOperands(dummy) ==
  {Struct(<<Branch("none", <<"b", 1>>, <<Item(op, FALSE, "none", <<ref>>), Item(nx, FALSE, "none", DefaultOpnds(nx))>>)>>, "none", 0, FALSE) :
     op \in ExprOps, ref \in ExprRefs, nx \in IF Tier = "quick" THEN {"collect", "find_map", "or_else", "then", "map"} ELSE NextOps}
  \cup {Struct(<<Branch("none", ref, <<Item(nx, d, "none", DefaultOpnds(nx))>>)>>, "none", 0, FALSE) :
          ref \in ExprRefs, nx \in NextOps, d \in BOOLEAN}
  \cup {Struct(<<Branch("none", <<"b", 1>>, <<Item(op, FALSE, "none", <<r1, r2>>), Item(nx, FALSE, "none", DefaultOpnds(nx))>>)>>, "none", 0, FALSE) :
          op \in {"fold", "try_fold"}, r1 \in {<<"b", i>> : i \in ExprBase}, r2 \in {<<"b", i>> : i \in ExprBase}, nx \in {"collect", "map", "then"}}
  \cup {Struct(<<Branch("none", <<"b", 1>>, <<Item("collect", FALSE, "none", <<ref>>), Item(nx, FALSE, "none", DefaultOpnds(nx))>>)>>, "none", 0, FALSE) :
          ref \in TypeRefs, nx \in NextOps}
  \cup {Struct(<<Branch("none", <<"b", 1>>, <<Item("unzip", FALSE, "none", <<r1, <<"b", 21>>, r2, <<"b", 25>>>>), Item(nx, FALSE, "none", DefaultOpnds(nx))>>)>>, "none", 0, FALSE) :
          r1 \in TypeRefs, r2 \in TypeRefs, nx \in {"map", "dot_gt", "then"}}
  \* the operand is the last thing of the branch and of the whole input (with and without trailing comma), of the first of two
  \* branches, or stands right in front of a handler: a look-alike inside it has nothing behind it that could repair the scanner's state
  \cup {Struct(<<Branch("none", <<"b", 1>>, <<Item(op, d, "none", <<ref>>)>>)>>, "none", 0, tr) :
          op \in ExprOps, ref \in ExprRefs, d \in BOOLEAN, tr \in BOOLEAN}
  \cup {Struct(<<Branch("none", ref, <<>>)>>, "none", 0, tr) : ref \in ExprRefs, tr \in BOOLEAN}
  \cup {Struct(<<Branch("none", <<"b", 1>>, <<Item("map", FALSE, "none", <<ref>>)>>), Branch("ident", <<"b", 1>>, <<Item("then", TRUE, "none", <<ref>>)>>)>>, h, IF h = "none" THEN 0 ELSE 2, FALSE) :
          ref \in ExprRefs, h \in {"none", "map"}}
  \cup {Struct(<<Branch("none", <<"b", 1>>, <<Item("collect", d, "none", <<ref>>)>>)>>, "none", 0, tr) : ref \in TypeRefs, d \in BOOLEAN, tr \in BOOLEAN}
  \cup {Struct(<<Branch("none", <<"b", 1>>, <<Item("unzip", FALSE, "none", <<r1, <<"b", 21>>, r2, <<"b", 25>>>>)>>)>>, "none", 0, tr) :
          r1 \in TypeRefs, r2 \in {<<"b", 21>>}, tr \in BOOLEAN}

\* member access: both spellings x kinds of member (method call, field, tuple index, turbofish method) x neighbours
MemberRefs == {<<"b", 2>>, <<"b", 1>>, <<"b", 26>>, <<"b", 28>>}
FamMembers(dummy) ==
  {Struct(<<Branch("none", <<"b", 1>>, pre \o <<Item(dop, d, "none", <<ref>>)>> \o post)>>, "none", 0, FALSE) :
     dop \in {"dot", "dot_gt"}, d \in BOOLEAN, ref \in MemberRefs,
     pre \in {<<>>, <<Item("map", FALSE, "none", <<<<"b", 1>>>>)>>, <<Item("unzip", FALSE, "none", <<>>)>>, <<Item("partition", FALSE, "none", <<<<"b", 8>>>>)>>,
               <<Item("collect", FALSE, "none", <<<<"b", 22>>>>)>>, <<Item("flatten", FALSE, "none", <<>>)>>},
     post \in {<<>>, <<Item("dot", FALSE, "none", <<<<"b", 2>>>>)>>, <<Item("map", FALSE, "none", <<<<"b", 3>>>>)>>, <<Item("dot_gt", TRUE, "none", <<<<"b", 26>>>>)>>}}

\* branches, handlers, let patterns, block-ending branches with and without comma
BranchPool ==
  {Branch(lt, init, its) : lt \in {"none", "ident", "mut"}, init \in {<<"b", 1>>, <<"b", 6>>, <<"b", 5>>},
                           its \in {<<>>, <<Item("map", FALSE, "none", <<<<"b", 3>>>>)>>, <<Item("and_then", TRUE, "none", <<<<"b", 6>>>>)>>,
                                    <<Item("map", FALSE, "wrap", <<>>), Item("then", FALSE, "none", <<<<"b", 1>>>>)>>}}
SmallPool == {b \in BranchPool : b.let \in {"none", "ident"} /\ b.init \in {<<"b", 1>>, <<"b", 6>>} /\ Len(b.items) <= 1}
FamBranches(dummy) ==
  {Struct(bs, h, hp, tr) : bs \in UNION {[1 .. n -> BranchPool] : n \in 1 .. 2} \cup (IF Tier = "quick" THEN {} ELSE [1 .. 3 -> SmallPool]),
                           h \in {"none", "map", "then", "and_then"}, hp \in 0 .. 3, tr \in BOOLEAN}

Structures(dummy) ==
  TLCEval(CASE Family = "pairs" -> FamPairs(0)
            [] Family = "operands" -> FamOperands(0)
            [] Family = "members" -> FamMembers(0)
            [] Family = "branches" ->
                 LET ok == {S \in FamBranches(0) : S.hpos <= Len(S.branches) /\ (S.handler = "none" => S.hpos = 0)}
                 IN  ok \cup {[S EXCEPT !.nocomma = TRUE] : S \in {T \in ok : T.handler # "none" /\ T.hpos >= 1 /\ LastIsBlock(T.branches[T.hpos])}})

---------------------------------------------------------------------------
Init == str = [pick |-> TRUE]
Pick == /\ "pick" \in DOMAIN str
        /\ \E S \in Structures(0) : str' = S
Next == Pick
Spec == Init /\ [][Next]_lvars

Picked == "branches" \in DOMAIN str
\* a block-ending last branch may omit the separating comma; Render always writes it, and a trailing
\* comma is only recorded at the very end
Normal(S) == S
RoundTrip ==
  Picked => LET r == Render(str)  sc == Scan(r) IN sc.err = "" /\ sc.S = Normal(str)

\* table sanity (the documented symbols are pairwise distinct; every row matches its own rendering)
TableOK ==
  /\ \A a, b \in 2 .. (NRows - 1) : a # b => (Rows[a].sym # Rows[b].sym \/ {Rows[a].name, Rows[b].name} = {"collect", "and_then"})
  /\ \A r \in 2 .. (NRows - 1) : Match(r, RowSym(Rows[r].name) \o <<Id("f")>>, 1)
\* whenever two rows match the same rendering, the one that comes first is the longer one
Longest ==
  \A r \in 2 .. (NRows - 1) :
     LET t == RowSym(Rows[r].name) \o <<Id("f")>> IN FirstRow(t, 1) = r

RECURSIVE TokText(_, _)
TokText(toks, i) ==
  IF i > Len(toks) THEN ""
  ELSE toks[i].tx \o (IF toks[i].k = "p" /\ toks[i].j THEN "" ELSE " ") \o TokText(toks, i + 1)
EmitLex ==
  Picked => PrintT(<<"LEX", ToJson([text |-> TokText(Render(str).toks, 1), s |-> str,
                                      opnds |-> [q \in 1 .. Len(Render(str).refs) |-> TokText(EntOf(Render(str).refs[q]).toks, 1)]])>>)
\* the catalogue, for validation against syn
EmitCatalogue ==
  ("pick" \in DOMAIN str) =>
     PrintT(<<"CATALOGUE", ToJson([q \in 1 .. NBase |->
        [kind |-> BaseCatalogue[q].kind, n |-> Len(BaseCatalogue[q].toks), cp |-> BaseCatalogue[q].cp,
         prefixes |-> [p \in 1 .. Len(BaseCatalogue[q].toks) |-> TokText(SubSeq(BaseCatalogue[q].toks, 1, p), 1)]]])>>)
=============================================================================
