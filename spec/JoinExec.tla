----------------------------- MODULE JoinExec -----------------------------
(***************************************************************************)
(* Reference semantics of one evaluation of a join-family macro: the step   *)
(* machine.  Written in functional style over a state record so that the    *)
(* model-checking instance (MCExec) and the trace specification (TraceExec) *)
(* share ONE definition of the enabled events:                              *)
(*      NextEvents(s)  - the events that may happen next in state s         *)
(*      Apply(s, e)    - the state after event e (silent steps settled)     *)
(* An event is what the conformance runtime (harness/rt) logs: evaluation   *)
(* of an initial expression, operand, block capture, entry/exit of a user   *)
(* callback, joiner / handler calls, drops, polls.                          *)
(*                                                                         *)
(* A program P (JSON, produced by the MC instances, rendered to Rust by     *)
(* gen/) is                                                                 *)
(*  [kind: [async,try,spawn], carrier: "res"|"opt", caller: "named"|..,     *)
(*   branches: Seq([name, init: "expr"|"block"|"thunk", iid, steps: ..]),   *)
(*   handler: "none"|"map"|"and_then"|"then", hform, hid, hpos,             *)
(*   opts: [joiner: "none"|"eager"|"lazy"|"try", lazy, transpose, path]]    *)
(*  Item = [id, op, form: "closure"|"block"|"call", reads: Seq(branch)]     *)
(* A plan is a sequence of [t, id, a]: t in f (callback/value), i (init     *)
(* expr), o (operand), c (capture), hx, hc, hf, jn;  a in fail, recover,    *)
(* panic.  Values are [ok, b, n, last]: branch, number of callbacks that    *)
(* transformed it, id of the latest one.                                    *)
(***************************************************************************)
EXTENDS Integers, Sequences, FiniteSets, TLC

Max(S) == CHOOSE x \in S : \A y \in S : y <= x
Min(S) == CHOOSE x \in S : \A y \in S : x <= y

NoV   == [ok |-> FALSE, b |-> -9, n |-> -9, last |-> -9]
NoneV == [ok |-> FALSE, b |-> -1, n |-> -1, last |-> -1]

\* every specification event has the same shape
NoRes == [t |-> "none", vals |-> <<>>]
E(ev, id, b, v, vs) == [ev |-> ev, id |-> id, b |-> b, v |-> v, vs |-> vs, res |-> NoRes]
EEnd(r) == [ev |-> "end", id |-> 0, b |-> -1, v |-> NoV, vs |-> <<>>, res |-> r]

---------------------------------------------------------------------------
\* program accessors
NB(P)         == Len(P.branches)
BrSet(P)      == 0 .. (NB(P) - 1)
Depth(P, b)   == Len(P.branches[b + 1].steps)
MaxDepth(P)   == Max({Depth(P, b) : b \in BrSet(P)})
Active(P, st) == {b \in BrSet(P) : Depth(P, b) > st}
Items(P, b, st) == P.branches[b + 1].steps[st + 1]
IsAsync(P) == P.kind.async
IsTry(P)   == P.kind.try
IsSpawn(P) == P.kind.spawn
IsTasks(P) == P.kind.async /\ P.kind.spawn
IsOpt(P)   == P.carrier = "opt"

\* The position of branch b in the tuple of step st (the generator's index
\* arithmetic: tuples range over ACTIVE branches only).
ActiveIdx(P, b, st) == Cardinality({c \in Active(P, st) : c < b})
BranchAt(P, i, st)  == CHOOSE b \in Active(P, st) : ActiveIdx(P, b, st) = i

ActOf(PL, t, id) ==
  LET m == {i \in 1 .. Len(PL) : PL[i].t = t /\ PL[i].id = id}
  IN  IF m = {} THEN "pass" ELSE PL[CHOOSE i \in m : TRUE].a

\* Laziness of multi-branch steps: default true for thread-spawning macros.
LazyBr(P) == IF P.opts.lazy = "default" THEN (IsSpawn(P) /\ ~IsAsync(P)) ELSE P.opts.lazy = "true"
\* Does the macro transpose itself?  default: sync try macros.
Transposes(P) == IF P.opts.transpose = "default" THEN (IsTry(P) /\ ~IsAsync(P)) ELSE FALSE

\* Operand evaluation is inline with the branch (sync) or hoisted to the
\* construction of the step's futures (async).
OpndInline(P) == ~IsAsync(P)

---------------------------------------------------------------------------
\* value semantics of the operator subset used by the step machine

Invoked(P, op, v) ==
  CASE op \in {"and_then", "filter"} -> v.ok
    [] op = "map"                    -> IF IsAsync(P) THEN TRUE ELSE v.ok
    [] op \in {"or_else", "map_err"} -> ~v.ok
    [] op \in {"then", "dot", "inspect", "job", "force"} -> TRUE
    [] OTHER -> FALSE

Fresh(b, id) == [ok |-> TRUE, b |-> b, n |-> 0, last |-> id]
Bump(v, id, ok) == [ok |-> ok, b |-> v.b, n |-> v.n + 1, last |-> id]

After(P, op, a, v, id, b) ==
  LET okp == CASE op = "map" /\ ~IsAsync(P) -> TRUE
               [] op = "and_then" -> a # "fail"
               [] op = "filter"   -> a # "fail"
               [] op = "or_else"  -> a = "recover"
               [] op = "map_err"  -> FALSE
               [] op = "inspect"  -> v.ok
               [] OTHER -> IF a = "fail" THEN FALSE ELSE IF a = "recover" THEN TRUE ELSE v.ok
  IN  IF op = "inspect" THEN v
      ELSE IF op = "filter" THEN (IF okp THEN v ELSE NoneV)
      ELSE IF IsOpt(P) THEN (IF okp THEN (IF v.ok THEN Bump(v, id, TRUE) ELSE Fresh(b, id)) ELSE NoneV)
      ELSE Bump(v, id, okp)

InitV(P, PL, b) ==
  LET iid == P.branches[b + 1].iid
  IN  IF ActOf(PL, "f", iid) = "fail"
      THEN (IF IsOpt(P) THEN NoneV ELSE [ok |-> FALSE, b |-> b, n |-> 0, last |-> iid])
      ELSE Fresh(b, iid)
AltV(P, PL, b, id) ==
  IF ActOf(PL, "f", id) = "fail"
  THEN (IF IsOpt(P) THEN NoneV ELSE [ok |-> FALSE, b |-> b, n |-> 0, last |-> id])
  ELSE Fresh(b, id)

\* is the value a real object (something that gets dropped)?
IsObj(P, v) == IF IsOpt(P) THEN v.ok ELSE TRUE
Objs(P, S) == {v \in S : IsObj(P, v)}

---------------------------------------------------------------------------
\* queues of a step

\* Callee-first operands.  `x -> f()` expands to `(f()(x))` and sync `x ?? f()` to `__inspect(f(), x)`: a call-expression
\* operand of `->` (every macro) or of `??` (sync macros) is evaluated BEFORE the receiver chain it is applied to, i.e. before
\* everything else of the branch's expression in that step, the later operator's operand first.
IsEarly(P, it) == it.form = "call" /\ (it.op \in {"then", "job"} \/ (it.op = "inspect" /\ ~IsAsync(P)))
RevSeq(q) == [i \in 1 .. Len(q) |-> q[Len(q) + 1 - i]]
Early(P, b, st) == LET sel == SelectSeq(Items(P, b, st), LAMBDA it : IsEarly(P, it))
                   IN  RevSeq([i \in 1 .. Len(sel) |-> sel[i].id])

RECURSIVE CatBr(_, _, _, _)
CatBr(F(_), P, st, b) ==   \* concatenation of F(b) over active branches >= b in order
  IF b >= NB(P) THEN <<>>
  ELSE (IF b \in Active(P, st) THEN F(b) ELSE <<>>) \o CatBr(F, P, st, b + 1)

CapsOfBranch(P, st, b) ==
  LET B   == P.branches[b + 1]
      ini == IF st = 0 /\ B.init = "block" THEN <<[id |-> B.iid, b |-> b, reads |-> <<>>]>> ELSE <<>>
      sel == SelectSeq(Items(P, b, st), LAMBDA it : it.form = "block")
  IN  ini \o [i \in 1 .. Len(sel) |-> [id |-> sel[i].id, b |-> b, reads |-> sel[i].reads]]
Caps(P, st) == LET F(b) == CapsOfBranch(P, st, b) IN CatBr(F, P, st, 0)

AwaitId(P, b) == P.branches[b + 1].iid + 9
\* construction events of the step's futures (async): initial expression, then call-form operands
ConsOfBranch(P, st, b) ==
  LET B   == P.branches[b + 1]
      \* init = "await": the initial expression awaits something itself (`f(g().await)`): the construction of the step's
      \* futures is suspended there (pseudo event "cwait" at gate AwaitId), inside the macro's own future
      ini == IF st = 0 /\ B.init = "expr" THEN <<[ev |-> "init", id |-> B.iid, b |-> b]>>
             ELSE IF st = 0 /\ B.init = "await" THEN <<[ev |-> "cwait", id |-> AwaitId(P, b), b |-> b], [ev |-> "init", id |-> B.iid, b |-> b]>>
             ELSE <<>>
      sel == SelectSeq(Items(P, b, st), LAMBDA it : it.form = "call" /\ ~IsEarly(P, it))
      ear == Early(P, b, st)
  IN  [i \in 1 .. Len(ear) |-> [ev |-> "opnd", id |-> ear[i], b |-> b]]
      \o ini \o [i \in 1 .. Len(sel) |-> [ev |-> "opnd", id |-> sel[i].id, b |-> b]]
Cons(P, st) == IF IsAsync(P) THEN (LET F(b) == ConsOfBranch(P, st, b) IN CatBr(F, P, st, 0)) ELSE <<>>

\* where the custom joiner's event sits relative to the branches of a step
JoinerMode(P, st) ==
  IF P.opts.joiner = "none" \/ Cardinality(Active(P, st)) < 2 THEN "none"
  ELSE IF IsAsync(P) THEN "before"
  ELSE IF IsSpawn(P) THEN "during"
  ELSE IF P.opts.joiner = "lazy" THEN "before"
  ELSE "after"

\* `futures_crate_path(p)`: the step's `join!` / `try_join!` is p's (event "fxjoin", logged by the re-export the harness passes as p);
\* it is reached after the step's captures and before the step's futures are constructed (they are its arguments)
FxMode(P, st) == IsAsync(P) /\ P.opts.path = "custom" /\ P.opts.joiner = "none" /\ Cardinality(Active(P, st)) > 1
Constructed(s) == s.capq = <<>> /\ s.consq = <<>> /\ (FxMode(s.prog, s.k) => s.fx = "done")

---------------------------------------------------------------------------
\* per-branch program counter: [i, ph]; i = 0 is the initial expression.
\* ph: "i" init event pending, "o" operand event pending, "e" enter pending,
\*     "g" arrive pending, "w" parked at a gate, "x" exit pending, "done".

Gated(s, id) == id \in s.gates
\* after the caller got its result the harness opens every gate silently so that detached tasks can finish their step
Rel(s, id) == id \in s.released \/ s.ph = "ended"

RECURSIVE Norm(_, _, _, _, _)
Norm(s, b, i, ph, v) ==     \* skip everything that produces no event
  LET P == s.prog  its == Items(P, b, s.k) IN
  IF i = 0 THEN [i |-> 0, ph |-> ph, v |-> v]
  ELSE IF i > Len(its) THEN [i |-> i, ph |-> "done", v |-> v]
  ELSE LET it == its[i] IN
    IF ph = "o" THEN
       IF it.op = "or" THEN [i |-> i, ph |-> "o", v |-> v]
       ELSE IF it.form = "call" /\ OpndInline(P) /\ ~IsEarly(P, it) THEN [i |-> i, ph |-> "o", v |-> v]
       ELSE Norm(s, b, i, "e", v)
    ELSE IF ph = "e" THEN
       IF Invoked(P, it.op, v) THEN [i |-> i, ph |-> "e", v |-> v]
       ELSE Norm(s, b, i + 1, "o", v)
    ELSE [i |-> i, ph |-> ph, v |-> v]

\* pc of branch b at the start of step st (state s already has k = st), after its callee-first operands
StartPc0(s, b) ==
  LET P == s.prog  B == P.branches[b + 1] IN
  IF s.k = 0 THEN
     IF IsAsync(P) THEN
        (IF Gated(s, B.iid) /\ B.iid \notin s.released
         THEN [i |-> 0, ph |-> "g", v |-> InitV(P, s.plan, b)]
         ELSE Norm(s, b, 1, "o", InitV(P, s.plan, b)))
     ELSE IF B.init = "expr" THEN [i |-> 0, ph |-> "i", v |-> NoV]
     \* a branch whose initial expression is a closure literal (`move || f()`): creating it evaluates nothing; the value of
     \* the step is the closure itself (also when the branch is handed over lazily: the wrapper closure returns it), and the
     \* operator "force" of a later step (`~-> call`) is what runs it
     ELSE IF B.init = "thunk" THEN Norm(s, b, 1, "o", NoV)
     ELSE Norm(s, b, 1, "o", InitV(P, s.plan, b))
  ELSE Norm(s, b, 1, "o", s.val[b])

\* ph = "y": the callee-first operands of the step are being evaluated, i indexes Early(..)
StartPc(s, b) ==
  IF ~IsAsync(s.prog) /\ Early(s.prog, b, s.k) # <<>> THEN [i |-> 1, ph |-> "y", v |-> NoV] ELSE StartPc0(s, b)

ItemAt(s, b) == Items(s.prog, b, s.k)[s.pc[b].i]
IdAt(s, b) == IF s.pc[b].ph = "y" THEN Early(s.prog, b, s.k)[s.pc[b].i]
              ELSE IF s.pc[b].i = 0 THEN s.prog.branches[b + 1].iid ELSE ItemAt(s, b).id

\* The one event branch b can produce next (a set with 0 or 1 elements).
BranchEvent(s, b) ==
  LET P == s.prog  p == s.pc[b]  id == IdAt(s, b) IN
  CASE p.ph = "y" -> {E("opnd", Early(P, b, s.k)[p.i], b, NoV, <<>>)}
    [] p.ph = "i" -> {E("init", id, b, NoV, <<>>)}
    [] p.ph = "o" -> {E("opnd", id, b, NoV, <<>>)}
    [] p.ph = "e" -> IF ItemAt(s, b).op = "force" THEN {E("init", P.branches[b + 1].iid, b, NoV, <<>>)}
                     ELSE {E("enter", id, b, p.v, <<>>)}
    \* (a detached task that reaches its gate after the caller got its result may find it open already or not yet)
    [] p.ph = "g" -> {E("arrive", id, b, NoV, <<>>)}
                     \cup (IF s.ph = "ended" /\ p.i > 0
                           THEN {E("exit", id, b, After(P, ItemAt(s, b).op, ActOf(s.plan, "f", id), p.v, id, b), <<>>)} ELSE {})
    [] p.ph = "w" -> {}
    [] p.ph = "x" ->
         IF Gated(s, id) /\ ~Rel(s, id) /\ ~(IsAsync(P) /\ ~s.arrived[b]) THEN {}
         ELSE IF ActOf(s.plan, "f", id) = "panic" /\ ~IsAsync(P) THEN {E("panic", id, b, NoV, <<>>)}
         ELSE {E("exit", id, b, After(P, ItemAt(s, b).op, ActOf(s.plan, "f", id), p.v, id, b), <<>>)}
    [] OTHER -> {}

---------------------------------------------------------------------------
\* state

InitState(P, PL, G) ==
  [prog |-> P, plan |-> PL, gates |-> G,
   ph |-> "new", k |-> 0, capq |-> <<>>, consq |-> <<>>,
   pc |-> [b \in BrSet(P) |-> [i |-> 0, ph |-> "done", v |-> NoV]],
   arrived |-> [b \in BrSet(P) |-> FALSE],
   val |-> [b \in BrSet(P) |-> NoV], names |-> [b \in BrSet(P) |-> NoV],
   ended |-> {}, garbage |-> {}, dropsFree |-> FALSE,
   res |-> NoRes, cands |-> {}, hparked |-> FALSE, polldone |-> FALSE,
   hx |-> FALSE, jn |-> "todo", fx |-> "todo", cparked |-> FALSE, pp |-> "", released |-> {},
   inpoll |-> FALSE, polled |-> FALSE, sinceWake |-> FALSE, woken |-> FALSE, spur |-> FALSE,
   panicked |-> FALSE, pb |-> -1, zombie |-> FALSE, fresh |-> FALSE, started |-> {}, cpb |-> -1]

StartStep(s, st) ==
  LET s1 == [s EXCEPT !.k = st, !.ph = "step", !.capq = Caps(s.prog, st), !.consq = Cons(s.prog, st),
                      !.ended = {}, !.jn = "todo", !.fx = "todo", !.started = {},
                      \* tasks spawned by this root poll start running only after it returns
                      !.fresh = IsTasks(s.prog) /\ Cardinality(Active(s.prog, st)) > 1,
                      !.arrived = [b \in BrSet(s.prog) |-> FALSE]]
  IN  [s1 EXCEPT !.pc = [b \in BrSet(s.prog) |->
                           IF b \in Active(s.prog, st) THEN StartPc(s1, b) ELSE [i |-> 0, ph |-> "done", v |-> NoV]]]

\* branches whose step ended right at its start (no event to produce)
EndedNow(s) == {b \in Active(s.prog, s.k) : s.pc[b].ph = "done"}

Failing(s) == {b \in Active(s.prog, s.k) : ~s.val[b].ok}

ResErr(P, v) == [t |-> "err", vals |-> <<IF IsOpt(P) THEN NoneV ELSE v>>]

HandlerStage(s, vals) ==
  IF s.prog.handler = "none"
  THEN [s EXCEPT !.ph = "fin", !.res = [t |-> IF IsTry(s.prog) THEN "ok" ELSE "tuple", vals |-> vals]]
  ELSE [s EXCEPT !.ph = "hwait", !.res = [t |-> "args", vals |-> vals]]

AllVals(s) == [i \in 1 .. NB(s.prog) |-> s.val[i - 1]]

Finalize(s) ==
  LET P == s.prog
      F == {b \in BrSet(P) : ~s.val[b].ok}
  IN  IF IsTry(P) /\ F # {}
      THEN LET fb == Min(F)
           IN  [s EXCEPT !.ph = "fin", !.res = ResErr(P, s.val[fb]),
                         !.garbage = s.garbage \cup Objs(P, {s.val[b] : b \in BrSet(P) \ {fb}})]
      ELSE HandlerStage(s, AllVals(s))

AbortSync(s) ==
  LET P == s.prog  fb == Min(Failing(s))
  IN  [s EXCEPT !.ph = "fin", !.res = ResErr(P, s.val[fb]),
                !.garbage = s.garbage \cup Objs(P, {s.val[b] : b \in BrSet(P) \ {fb}})]

StepComplete(s) ==
  /\ s.ph = "step" /\ Constructed(s)
  /\ s.ended = Active(s.prog, s.k)
  /\ (JoinerMode(s.prog, s.k) # "none" => s.jn = "done")
  /\ ~s.panicked

\* The barrier: every active branch finished the step.  The step's tuple is
\* indexed by ACTIVE position and destructured back into per-branch bindings.
Barrier(s) ==
  LET P == s.prog
      n == Cardinality(Active(P, s.k))
      tuple == [i \in 0 .. (n - 1) |-> s.pc[BranchAt(P, i, s.k)].v]
      nv == [b \in BrSet(P) |-> IF b \in Active(P, s.k) THEN tuple[ActiveIdx(P, b, s.k)] ELSE s.val[b]]
  IN  [s EXCEPT !.val = nv, !.names = nv]

RECURSIVE Settle(_)
Settle(s) ==
  LET P == s.prog IN
  \* an awaited thing that is ready does not suspend the construction
  IF s.ph = "step" /\ s.consq # <<>> /\ Head(s.consq).ev = "cwait" /\ (Head(s.consq).id \notin s.gates \/ Head(s.consq).id \in s.released)
  THEN Settle([s EXCEPT !.consq = Tail(s.consq), !.cparked = FALSE])
  ELSE
  \* (tasks spawned by the running poll have not started; one that was spawned by an earlier poll - in front of a suspended
  \* construction - may be through already)
  IF s.ph = "step" /\ Constructed(s) /\ (EndedNow(s) \ s.ended) \cap (IF s.fresh THEN s.started ELSE BrSet(P)) # {}
  THEN Settle([s EXCEPT !.ended = s.ended \cup (EndedNow(s) \cap (IF s.fresh THEN s.started ELSE BrSet(P)))])
  ELSE IF StepComplete(s) /\ (IsAsync(P) => s.inpoll)
  THEN LET s1 == Barrier(s) IN
       IF IsTry(P) /\ Failing(s1) # {} /\ (IsAsync(P) \/ s.k < MaxDepth(P) - 1)
       THEN (IF IsAsync(P) THEN s    \* async: the failure completes the future (pollend/end decide which)
             ELSE AbortSync(s1))
       ELSE IF s.k < MaxDepth(P) - 1 THEN Settle(StartStep(s1, s.k + 1))
       ELSE Finalize(s1)
  ELSE s

---------------------------------------------------------------------------
\* enabled events

\* a pending injected panic on the caller's side blocks everything; one inside a branch thread only that branch
CallerPanics(s) == s.pp # "" /\ s.pb = -1

Running(s) == s.ph = "step" /\ Constructed(s) /\ ~CallerPanics(s)
              /\ (JoinerMode(s.prog, s.k) = "before" => s.jn = "done")

\* `lazy_branches(false)` in a thread-spawning sync macro: the branch expression is evaluated on the calling thread,
\* branch after branch, and must yield the job the thread then runs.  In the programs of the corpus the job is the
\* last action of the step (operator "job": `-> |r| move || f(r)`); everything before it runs on the caller.
EagerSpawn(P) == ~IsAsync(P) /\ IsSpawn(P) /\ P.opts.lazy = "false"
AtJob(s, c) == /\ c \notin s.ended /\ s.pc[c].ph # "y"
               /\ s.pc[c].i \in 1 .. Len(Items(s.prog, c, s.k))
               /\ Items(s.prog, c, s.k)[s.pc[c].i].op = "job"
JobIds(P) == UNION {UNION {{Items(P, b, k)[j].id : j \in {x \in 1 .. Len(Items(P, b, k)) : Items(P, b, k)[x].op = "job"}}
                           : k \in 0 .. (Depth(P, b) - 1)} : b \in BrSet(P)}

\* may branch b move now?
MayRun(s, b) ==
  LET P == s.prog IN
  /\ b \in Active(P, s.k) /\ b \notin s.ended /\ b # s.pb
  /\ (EagerSpawn(P) /\ Cardinality(Active(P, s.k)) > 1 /\ ~AtJob(s, b))
        => \A c \in Active(P, s.k) : c < b => (c \in s.ended \/ AtJob(s, c))
  /\ \/ Running(s) /\ ~s.panicked /\ ~s.fresh /\ (IsAsync(P) /\ ~IsTasks(P) => s.inpoll)
        /\ (IsTasks(P) /\ Cardinality(Active(P, s.k)) < 2 => s.inpoll)
     \* tasks: the branches in front of the one whose expression suspends the construction are spawned already and run
     \/ /\ IsTasks(P) /\ Cardinality(Active(P, s.k)) > 1 /\ s.ph = "step" /\ s.capq = <<>> /\ s.consq # <<>>
        /\ s.polled /\ ~s.inpoll /\ ~s.fresh /\ ~s.panicked /\ ~CallerPanics(s) /\ b < Head(s.consq).b
     \/ s.zombie /\ Constructed(s)

BranchEvents(s) == UNION {BranchEvent(s, b) : b \in {c \in BrSet(s.prog) : MayRun(s, c)}}

\* no active branch can move without the environment
Parked(s) == \A b \in Active(s.prog, s.k) \ s.ended :
                 s.pc[b].ph = "w" \/ (s.pc[b].ph = "x" /\ BranchEvent(s, b) = {})

FailedEnded(s) == {b \in s.ended : ~s.pc[b].v.ok}

CapEvent(s) ==
  LET c == Head(s.capq) IN
  E("cap", c.id, c.b, NoV, [i \in 1 .. Len(c.reads) |-> [b |-> c.reads[i], v |-> s.names[c.reads[i]], w |-> TRUE]])

OnCaller(s) == IsAsync(s.prog) => s.inpoll   \* caller-side events of async macros happen inside a poll
\* a task that was spawned in front of a suspended construction has panicked: the macro's future learns it only when it joins
\* the step's handles, i.e. after the construction of the remaining futures
TaskPanicUnseen(s) == IsTasks(s.prog) /\ s.panicked /\ s.pb >= 0 /\ s.pp = "" /\ s.ph = "step" /\ s.consq # <<>>

StepEvents(s) ==
  LET P == s.prog IN
  \* threads: the calling thread runs on while a spawned branch panics, so it may still reach the call of a custom joiner
  IF s.ph = "step" /\ s.panicked /\ s.pb >= 0 /\ IsSpawn(P) /\ ~IsAsync(P) /\ ~CallerPanics(s)
     /\ s.capq = <<>> /\ JoinerMode(P, s.k) = "during" /\ s.jn = "todo"
  THEN {E("joiner", Cardinality(Active(P, s.k)), -1, NoV, <<>>)}
  ELSE
  IF s.ph # "step" \/ (s.panicked /\ ~TaskPanicUnseen(s)) \/ CallerPanics(s) \/ ~OnCaller(s) THEN {}
  ELSE IF s.capq # <<>> THEN {CapEvent(s)}
  ELSE IF JoinerMode(P, s.k) = "before" /\ s.jn = "todo"
       THEN {E("joiner", Cardinality(Active(P, s.k)), -1, NoV, <<>>)}
  ELSE IF FxMode(P, s.k) /\ s.fx = "todo" THEN {E("fxjoin", Cardinality(Active(P, s.k)), -1, NoV, <<>>)}
  ELSE IF s.consq # <<>> /\ Head(s.consq).ev = "cwait"
       THEN (IF s.cparked THEN {} ELSE {E("arrive", Head(s.consq).id, Head(s.consq).b, NoV, <<>>)})
  ELSE IF s.consq # <<>> THEN {E(Head(s.consq).ev, Head(s.consq).id, Head(s.consq).b, NoV, <<>>)}
  ELSE IF s.jn = "todo" /\ (\/ JoinerMode(P, s.k) = "during"
                            \/ JoinerMode(P, s.k) = "after" /\ s.ended = Active(P, s.k))
       THEN {E("joiner", Cardinality(Active(P, s.k)), -1, NoV, <<>>)}
  ELSE {}

HandlerApplies(s) == s.ph = "hwait"
HTok(P) == [ok |-> TRUE, b |-> 100, n |-> NB(P), last |-> 0]
HFail(P) == IF IsOpt(P) THEN NoneV ELSE [ok |-> FALSE, b |-> 100, n |-> NB(P), last |-> 0]

HandlerEvents(s) ==
  LET P == s.prog IN
  (IF P.handler # "none" /\ P.hform = "call" /\ ~s.hx /\ s.ph \in {"step", "hwait"} /\ s.pp = ""
      /\ ~s.panicked /\ OnCaller(s)
   THEN {E("hexpr", 0, -1, NoV, <<>>)} ELSE {})
  \cup
  (IF s.ph = "hwait" /\ (P.hform = "call" => s.hx) /\ s.pp = "" /\ ~s.panicked /\ OnCaller(s)
   THEN {E("hcall", 0, -1, NoV, s.res.vals)} ELSE {})
  \cup
  (IF s.ph = "hawait" /\ s.pp = "" /\ ~s.panicked /\ OnCaller(s) THEN
      (IF Gated(s, P.hid) /\ P.hid \notin s.released
       THEN (IF s.hparked THEN {} ELSE {E("arrive", P.hid, -1, NoV, <<>>)})
       ELSE {E("hawait", 0, -1, NoV, <<>>)})
   ELSE {})

LifeEvents(s) ==
  LET P == s.prog IN
  CASE s.ph = "new" -> {E(IF IsAsync(P) THEN "create" ELSE "begin", 0, -1, NoV, <<>>)}
    [] s.ph = "created0" -> {E("created", 0, -1, NoV, <<>>)}
    [] s.ph = "ended" /\ IsAsync(P) -> {E("dropfut", 0, -1, NoV, <<>>)}
    [] OTHER -> {}

\* the result the caller sees
EndEvents(s) ==
  LET P == s.prog IN
  IF s.ph = "closed" \/ s.ph = "ended" THEN {}
  ELSE IF s.panicked /\ s.pp = ""
       THEN (IF IsAsync(P) /\ ~s.inpoll THEN {}
             ELSE IF TaskPanicUnseen(s) THEN {}
             ELSE IF IsSpawn(P) /\ ~IsAsync(P) /\ s.pb >= 0
                     /\ ~(\A b \in Active(P, s.k) : b < s.pb => b \in s.ended) THEN {}
             ELSE {EEnd([t |-> "panicked", vals |-> <<>>])})
  ELSE IF s.ph = "fin" /\ (IsAsync(P) => s.polldone) /\ (s.dropsFree \/ s.garbage = {})
       THEN {EEnd(s.res)}
  ELSE IF s.ph = "afail" /\ s.polldone
       THEN {EEnd(ResErr(P, s.pc[b].v)) : b \in s.cands}
  ELSE {}

PollEvents(s) ==
  LET P == s.prog IN
  IF ~IsAsync(P) \/ s.ph \in {"new", "created0", "ended", "closed"} \/ s.polldone THEN {}
  ELSE IF ~s.inpoll THEN {E("poll", 0, -1, NoV, <<>>)}
  ELSE IF (s.panicked /\ ~TaskPanicUnseen(s)) \/ s.pp # "" THEN {}
  ELSE \* inside a poll: how can it end?
    (IF s.ph = "fin" /\ (s.dropsFree \/ s.garbage = {}) THEN {E("pollend", 1, -1, NoV, <<>>)} ELSE {})
    \cup
    (IF s.ph = "step" /\ IsTry(P) /\ FailedEnded(s) # {} /\ Constructed(s)
     THEN {E("pollend", 1, -1, NoV, <<>>)} ELSE {})
    \cup
    (IF /\ s.ph = "step" /\ Constructed(s)
        /\ (JoinerMode(P, s.k) = "before" => s.jn = "done")
        /\ s.ended # Active(P, s.k)
        /\ (IsTry(P) => FailedEnded(s) = {})
        /\ (IF IsTasks(P) /\ Cardinality(Active(P, s.k)) > 1 THEN TRUE ELSE Parked(s))
     THEN {E("pollend", 0, -1, NoV, <<>>)} ELSE {})
    \cup
    (IF s.ph = "hawait" /\ s.hparked /\ Gated(s, P.hid) /\ P.hid \notin s.released
     THEN {E("pollend", 0, -1, NoV, <<>>)} ELSE {})
    \cup
    (IF s.ph = "step" /\ s.consq # <<>> /\ s.cparked THEN {E("pollend", 0, -1, NoV, <<>>)} ELSE {})

\* Drop accounting is exact unless a panic unwinds or futures are abandoned mid-flight
\* (an async try macro completing with the first failure drops its pending siblings).
DropsFree(s) == s.dropsFree \/ (IsAsync(s.prog) /\ IsTry(s.prog) /\ s.ph = "step" /\ FailedEnded(s) # {})

DropEvents(s) == {E("drop", 0, -1, v, <<>>) : v \in s.garbage}

\* the injected panic follows the event of the expression that raises it, on the same thread
PanicEvents(s) == IF s.pp # "" THEN {E("panic", 0, s.pb, NoV, <<>>)} ELSE {}

NextEvents(s) ==
  LifeEvents(s) \cup StepEvents(s) \cup BranchEvents(s) \cup HandlerEvents(s)
  \cup PollEvents(s) \cup DropEvents(s) \cup PanicEvents(s) \cup EndEvents(s)

---------------------------------------------------------------------------
\* effects

PanicKeyFor(s, e) ==   \* does the plan panic right after this event?
  LET t == CASE e.ev = "init" -> "i" [] e.ev = "opnd" -> "o" [] e.ev = "cap" -> "c"
             [] e.ev = "hexpr" -> "hx" [] e.ev = "hcall" -> "hc" [] e.ev = "hawait" -> "hf"
             [] e.ev = "joiner" -> "jn" [] OTHER -> "-"
      id == IF t \in {"hx", "hc", "hf", "jn"} THEN 0 ELSE e.id
  IN  IF t # "-" /\ ActOf(s.plan, t, id) = "panic" THEN t ELSE ""

SetPc(s, b, p) == [s EXCEPT !.pc[b] = p]

ApplyBranch(s0, e) ==
  LET P == s0.prog  b == e.b  p == s0.pc[b]  s == [s0 EXCEPT !.started = s0.started \cup {b}] IN
  CASE e.ev = "init" ->
         LET pk == PanicKeyFor(s, e) IN
         IF pk # "" THEN [s EXCEPT !.pp = pk, !.pb = b]
         ELSE SetPc(s, b, Norm(s, b, p.i + 1, "o", InitV(P, s.plan, b)))
    [] e.ev = "opnd" ->
         LET pk == PanicKeyFor(s, e)  it == ItemAt(s, b) IN
         IF pk # "" THEN [s EXCEPT !.pp = pk, !.pb = b]
         ELSE IF p.ph = "y"
         THEN (IF p.i < Len(Early(P, b, s.k)) THEN SetPc(s, b, [p EXCEPT !.i = p.i + 1]) ELSE SetPc(s, b, StartPc0(s, b)))
         ELSE IF it.op = "or"
         THEN LET alt == AltV(P, s.plan, b, it.id)
                  nv  == IF p.v.ok THEN p.v ELSE alt
                  lose == IF p.v.ok THEN alt ELSE p.v
              IN  [SetPc(s, b, Norm(s, b, p.i + 1, "o", nv)) EXCEPT !.garbage = s.garbage \cup Objs(P, {lose})]
         ELSE SetPc(s, b, Norm(s, b, p.i, "e", p.v))
    [] e.ev = "enter" ->
         IF IsAsync(P) /\ ActOf(s.plan, "f", e.id) = "panic" THEN [s EXCEPT !.pp = "f", !.pb = b]
         ELSE IF Gated(s, e.id) /\ (IsAsync(P) => e.id \notin s.released) THEN SetPc(s, b, [p EXCEPT !.ph = "g"])
         ELSE SetPc(s, b, [p EXCEPT !.ph = "x"])
    [] e.ev = "arrive" ->
         [SetPc(s, b, [p EXCEPT !.ph = IF p.i = 0 THEN "w" ELSE "x"]) EXCEPT !.arrived[b] = TRUE]
    [] e.ev = "exit" ->
         \* Option::filter drops the value its predicate rejects
         LET lost == IF p.i > 0 /\ ItemAt(s, b).op = "filter" /\ p.v.ok /\ ~e.v.ok THEN {p.v} ELSE {} IN
         [SetPc(s, b, Norm(s, b, p.i + 1, "o", e.v)) EXCEPT !.arrived[b] = FALSE, !.garbage = s.garbage \cup lost]
    [] e.ev = "panic" -> [s EXCEPT !.panicked = TRUE, !.pb = b, !.dropsFree = TRUE,
                                   !.zombie = IsSpawn(P)]
    [] OTHER -> s

\* a parked initial future (i = 0, ph = "w") continues when its gate is ready
Unpark(s) ==
  [s EXCEPT !.pc = [b \in BrSet(s.prog) |->
      IF s.pc[b].i = 0 /\ s.pc[b].ph = "w" /\ s.prog.branches[b + 1].iid \in s.released
      THEN Norm(s, b, 1, "o", s.pc[b].v) ELSE s.pc[b]]]

ApplyRaw(s, e) ==
  LET P == s.prog IN
  IF IsAsync(P) /\ s.ph = "step" /\ s.consq # <<>> /\ e.ev = "arrive" /\ Head(s.consq).ev = "cwait" /\ e.id = Head(s.consq).id
  THEN [s EXCEPT !.cparked = TRUE]
  ELSE
  IF IsAsync(P) /\ s.ph = "step" /\ s.consq # <<>> /\ e.ev \in {"init", "opnd"}
  THEN \* construction of the step's futures
       LET pk == PanicKeyFor(s, e) IN
       IF pk # "" THEN [s EXCEPT !.pp = pk, !.cpb = e.b] ELSE [s EXCEPT !.consq = Tail(s.consq)]
  ELSE
  CASE e.ev \in {"begin"} -> StartStep(s, 0)
    [] e.ev = "create" -> [s EXCEPT !.ph = "created0"]
    [] e.ev = "created" -> [s EXCEPT !.ph = "idle"]
    [] e.ev = "dropfut" -> [s EXCEPT !.ph = "closed"]
    [] e.ev = "poll" ->
         IF s.ph = "idle" THEN [StartStep(s, 0) EXCEPT !.inpoll = TRUE, !.polled = TRUE]
         ELSE [s EXCEPT !.inpoll = TRUE, !.sinceWake = FALSE, !.woken = FALSE,
                        !.spur = ~(s.woken \/ s.sinceWake),
                        \* a poll that goes on constructing the step spawns the remaining tasks: they start after it returns
                        !.fresh = IF s.ph = "step" /\ s.consq # <<>> THEN IsTasks(P) /\ Cardinality(Active(P, s.k)) > 1 ELSE s.fresh]
    [] e.ev = "pollend" ->
         IF e.id = 0 THEN [s EXCEPT !.inpoll = FALSE, !.fresh = FALSE]
         ELSE IF s.ph = "fin" THEN [s EXCEPT !.inpoll = FALSE, !.polldone = TRUE]
         ELSE [s EXCEPT !.inpoll = FALSE, !.polldone = TRUE, !.ph = "afail", !.cands = FailedEnded(s),
                        !.dropsFree = TRUE, !.zombie = IsTasks(P)]
    [] e.ev = "cap" ->
         LET pk == PanicKeyFor(s, e) IN
         IF pk # "" THEN [s EXCEPT !.pp = pk] ELSE [s EXCEPT !.capq = Tail(s.capq)]
    [] e.ev = "joiner" ->
         LET pk == PanicKeyFor(s, e) IN
         IF pk # "" THEN [s EXCEPT !.pp = pk] ELSE [s EXCEPT !.jn = "done"]
    [] e.ev = "fxjoin" -> [s EXCEPT !.fx = "done"]
    [] e.ev = "hexpr" ->
         LET pk == PanicKeyFor(s, e) IN
         IF pk # "" THEN [s EXCEPT !.pp = pk] ELSE [s EXCEPT !.hx = TRUE]
    [] e.ev = "hcall" ->
         LET pk == PanicKeyFor(s, e)
             failp == ActOf(s.plan, "hc", 0) = "fail"
             r == CASE P.handler = "map" -> [t |-> "ok", vals |-> <<HTok(P)>>]
                    [] P.handler = "and_then" -> IF failp THEN [t |-> "err", vals |-> <<HFail(P)>>]
                                                 ELSE [t |-> "ok", vals |-> <<HTok(P)>>]
                    [] OTHER -> [t |-> "tuple", vals |-> <<HTok(P)>>]
         IN  IF pk # "" THEN [s EXCEPT !.pp = pk]
             ELSE [s EXCEPT !.res = r,
                            !.ph = IF IsAsync(P) /\ P.handler \in {"then", "and_then"} THEN "hawait" ELSE "fin"]
    [] e.ev = "hawait" ->
         LET pk == PanicKeyFor(s, e) IN
         IF pk # "" THEN [s EXCEPT !.pp = pk] ELSE [s EXCEPT !.ph = "fin"]
    [] e.ev = "drop" -> [s EXCEPT !.garbage = s.garbage \ {e.v}]
    [] e.ev = "end" -> [s EXCEPT !.ph = IF IsAsync(P) \/ s.zombie THEN "ended" ELSE "closed", !.res = e.res]
    [] e.ev = "panic" /\ e.b = -1 ->
         IF IsTasks(P) /\ s.cpb >= 0 /\ Cardinality(Active(P, s.k)) > 1
         THEN \* construction of branch cpb's future panicked inside the root poll: the tasks of the
              \* lower-numbered branches are already spawned and keep running, the others never exist
              [s EXCEPT !.panicked = TRUE, !.pp = "", !.dropsFree = TRUE, !.consq = <<>>, !.fresh = FALSE,
                        !.ended = s.ended \cup {b \in Active(P, s.k) : b >= s.cpb},
                        !.zombie = TRUE]
         ELSE [s EXCEPT !.panicked = TRUE, !.pp = "", !.dropsFree = TRUE,
                        \* threads / tasks of the step exist only if the step got that far
                        !.zombie = IsSpawn(P) /\ s.ph = "step" /\ Constructed(s)
                                   /\ Cardinality(Active(P, s.k)) > 1
                                   /\ (s.started # {} \/ s.pp = "jn" \/ IsTasks(P))]
    [] e.ev = "arrive" /\ e.b = -1 -> [s EXCEPT !.hparked = TRUE]
    [] OTHER -> ApplyBranch(s, e)

Apply(s, e) ==
  LET s1 == ApplyRaw(s, e)
      s2 == IF e.ev = "panic" /\ e.b # -1 THEN [s1 EXCEPT !.pp = ""] ELSE s1
      s3 == Settle(s2)
  IN  \* tasks: a branch task that completes outside a root poll must wake the root
      \* (so must one that panics: its handle completes with the panic, which the root then raises)
      IF IsTasks(s.prog) /\ ~s3.inpoll /\ (s3.ended # s.ended \/ (s3.panicked /\ ~s.panicked /\ e.b >= 0 /\ Constructed(s3))) /\ s3.k = s.k
      THEN [s3 EXCEPT !.sinceWake = TRUE] ELSE s3

\* environment: release gates (threads: one at a time; futures: a batch)
\* Is some branch (or the handler future) parked at one of these gates?
ParkedAt(s, ids) ==
  \/ s.ph = "step" /\ s.consq # <<>> /\ s.cparked /\ Head(s.consq).id \in ids
  \/ \E b \in Active(s.prog, s.k) \ s.ended :
        s.pc[b].ph \in {"w", "x"} /\ s.arrived[b] /\ IdAt(s, b) \in ids
  \/ s.ph = "hawait" /\ s.hparked /\ s.prog.hid \in ids

ApplyRelease(s, ids) ==
  Settle(Unpark([s EXCEPT !.released = s.released \cup ids,
                          !.hparked = IF s.prog.hid \in ids THEN FALSE ELSE s.hparked,
                          !.woken = s.woken \/ ParkedAt(s, ids)]))

Done(s) == s.ph \in {"closed", "ended"}
=============================================================================
