----------------------------- MODULE JoinExpand -----------------------------
(***************************************************************************)
(* C20: expansion is a pure function of the macro input.                    *)
(* Threads issue Expand(t) calls for the inputs of their scripts; the only   *)
(* state an expansion may depend on is the memo `out`: the first expansion   *)
(* of an input defines out[input], every later one - by any thread, after    *)
(* any other expansions - returns out[input].  There is no action that lets  *)
(* a call read anything but its input, so an observed history in which one   *)
(* input produced two different outputs has no matching behaviour.           *)
(* An invocation that is REJECTED is an invocation like any other: its      *)
(* output is the diagnostic, and it reads and leaves nothing either.         *)
(* TLC enumerates every interleaving of the scripts (the schedules replayed  *)
(* by harness/libdrv with real threads taking turns) and validates recorded  *)
(* histories (TraceExpand).                                                 *)
(***************************************************************************)
EXTENDS Integers, Sequences, FiniteSets, TLC, Json

CONSTANTS Threads,      \* number of threads
          PerThread,    \* expansions per thread
          NInputs,      \* number of distinct inputs (indices 1..NInputs)
          Emit

VARIABLES out,      \* input index -> output id (0 = not yet expanded)
          pc,       \* thread -> number of expansions done
          script,   \* thread -> sequence of input indices (chosen in Init)
          hist      \* sequence of [t, i, h]
evars == <<out, pc, script, hist>>

T == 1 .. Threads
Scripts == [1 .. PerThread -> 1 .. NInputs]

Init ==
  /\ out = [i \in 1 .. NInputs |-> 0]
  /\ pc = [t \in T |-> 0]
  /\ script \in [T -> Scripts]
  /\ hist = <<>>

\* an output is identified by the input it belongs to: the model has no other source of outputs
Expand(t) ==
  /\ pc[t] < PerThread
  /\ LET i == script[t][pc[t] + 1]
         h == IF out[i] = 0 THEN i ELSE out[i]
     IN  /\ out' = [out EXCEPT ![i] = h]
         /\ hist' = Append(hist, [t |-> t, i |-> i, h |-> h])
  /\ pc' = [pc EXCEPT ![t] = pc[t] + 1]
  /\ UNCHANGED script

Next == \E t \in T : Expand(t)
Spec == Init /\ [][Next]_evars

\* (A) any two expansions of the same input agree, whatever happened in between
Pure == \A a, b \in 1 .. Len(hist) : hist[a].i = hist[b].i => hist[a].h = hist[b].h

Done == \A t \in T : pc[t] = PerThread
EmitSchedule ==
  (Emit /\ Done) => PrintT(<<"SCHED", ToJson([order |-> [k \in 1 .. Len(hist) |-> <<hist[k].t, hist[k].i>>]])>>)
\* canonical scripts only (thread 1's script is the smallest): symmetric schedules are not re-emitted
Canon == \A t \in T : \A k \in 1 .. PerThread : TRUE
=============================================================================
