----------------------------- MODULE JoinStruct -----------------------------
(***************************************************************************)
(* Structural acceptance of a macro invocation (C15; static halves of C02,  *)
(* C13, C16).  Two layers:                                                 *)
(*   Valid(inp)  - the PROPERTY's notion of a structurally valid input      *)
(*   Impl        - what the code does, as a state machine shaped like the   *)
(*                 implementation: option loop (4 rounds x 4 fixed-order    *)
(*                 peeks, parse.rs:88-129), branch/handler loop             *)
(*                 (parse.rs:131-147), the chain builder's wrapper counter  *)
(*                 (builder.rs:62,107-117), JoinOutput::new's compatibility *)
(*                 checks (join_output.rs:125-135) and the generator's      *)
(*                 per-step stack of partial chains (join_output.rs:        *)
(*                 1017-1074, 899-945, 349-357) where every expect() is an  *)
(*                 explicit "internal" outcome.                             *)
(* Invariants: the implementation never ends "internal", and it accepts     *)
(* exactly the valid inputs.  Every enumerated input is also rendered and   *)
(* pushed through the real parser + generator; the observed outcome class   *)
(* must equal Impl's.                                                       *)
(***************************************************************************)
EXTENDS Integers, Sequences, FiniteSets, TLC, Json

CONSTANTS Family, Tier,
          BuilderResetsAtStep,  \* TRUE: the builder forgets open wrappers at a `~` action (repaired code)
          OptionRounds          \* number of rounds of the option loop (4 in the code)

VARIABLES inp, st
svars == <<inp, st>>

---------------------------------------------------------------------------
\* Input: [kind: [async, try, spawn],
\*         opts: Seq(option name),
\*         elems: Seq(element)]          branches and handlers in source order
\* element = [t: "branch", let: "none" | IdentLets | NonIdentLets, empty: BOOLEAN, items: Seq(item)]
\*         | [t: "handler", h: "map"|"and_then"|"then"]
\* item = [op: operator name, deferred: BOOLEAN, mv: "none"|"wrap"|"unwrap", opnd: "ok"|"missing"|"na"]
\*   op = "unwrap" is `<<<`; mv = "wrap" means `>>>` follows the operator

WrapperOps == {"map", "and_then", "filter", "inspect", "filter_map", "find", "find_map", "partition", "or_else", "map_err"}
AllOps == WrapperOps \cup {"then", "dot", "or", "chain", "collect", "enumerate", "flatten", "fold", "try_fold", "zip", "unzip"}
NoOperandOps == {"flatten", "enumerate", "collect", "unzip"}    \* operand may be absent
OptionNames == {"path", "joiner", "transpose", "lazy"}
OptionOrder == <<"path", "joiner", "transpose", "lazy">>
\* an operator (`<<<`, or `|> g`) written between the operands of a multi-operand operator, behind operand number k
MidKinds == {"midunwrap1", "midop1", "midunwrap2", "midunwrap3"}          \* fixed peek order inside a round

\* `let <pattern> =` in front of a branch: identifier patterns name the branch, every other pattern is an error
IdentLets == {"ident", "mut", "ref"}                                  \* let x / let mut x / let ref x
NonIdentLets == {"tuple", "wild", "paren", "tstruct", "refpat", "slice", "lit", "struct"}

It(op, d, mv) == [op |-> op, deferred |-> d, mv |-> mv, opnd |-> IF mv = "wrap" \/ op = "unwrap" \/ op \in NoOperandOps THEN "na" ELSE "ok"]
Br(lt, items) == [t |-> "branch", let |-> lt, empty |-> FALSE, items |-> items, h |-> "none"]
EmptyBr == [t |-> "branch", let |-> "none", empty |-> TRUE, items |-> <<>>, h |-> "none"]
Hd(h) == [t |-> "handler", let |-> "none", empty |-> FALSE, items |-> <<>>, h |-> h]
Kind(a, t, sp) == [async |-> a, try |-> t, spawn |-> sp]
Kinds8 == {Kind(a, t, sp) : a \in BOOLEAN, t \in BOOLEAN, sp \in BOOLEAN}
Inp(kind, opts, elems) == [kind |-> kind, opts |-> opts, elems |-> elems]

SeqsUpTo(S, n) == UNION {[1 .. k -> S] : k \in 0 .. n}

---------------------------------------------------------------------------
\* the property's definition of validity (independent of the code)

\* wrappers of one chain: every `<<<` closes a `>>>` opened in the same step
RECURSIVE BalancedFrom(_, _, _)
BalancedFrom(items, i, open) ==
  IF i > Len(items) THEN TRUE
  ELSE LET it == items[i]
           o0 == IF it.deferred THEN 0 ELSE open          \* a new step closes everything implicitly
       IN  IF it.op = "unwrap" THEN (o0 > 0 /\ it.mv # "wrap" /\ BalancedFrom(items, i + 1, o0 - 1))
           ELSE IF it.mv = "wrap" THEN (it.op \in WrapperOps /\ BalancedFrom(items, i + 1, o0 + 1))
           ELSE BalancedFrom(items, i + 1, o0)

ValidBranch(b) ==
  /\ ~b.empty
  /\ b.let \in {"none"} \cup IdentLets
  /\ \A i \in 1 .. Len(b.items) : b.items[i].opnd \notin {"missing"} \cup MidKinds
  /\ BalancedFrom(b.items, 1, 0)

Branches(i) == SelectSeq(i.elems, LAMBDA e : e.t = "branch")
Handlers(i) == SelectSeq(i.elems, LAMBDA e : e.t = "handler")

Valid(i) ==
  /\ Len(Branches(i)) >= 1
  /\ \A k \in 1 .. Len(Branches(i)) : ValidBranch(Branches(i)[k])
  /\ Len(Handlers(i)) <= 1
  /\ \A k \in 1 .. Len(Handlers(i)) :
        IF i.kind.try THEN Handlers(i)[k].h \in {"map", "and_then"} ELSE Handlers(i)[k].h = "then"
  /\ \A a, b \in 1 .. Len(i.opts) : a # b => i.opts[a] # i.opts[b]
  /\ ("path" \in {i.opts[k] : k \in 1 .. Len(i.opts)}) => i.kind.async

---------------------------------------------------------------------------
\* the implementation, step by step
\* st = [ph, out, msg, oi (next option index), round, seen (options), ei (element), ii (item),
\*       wc (builder's wrapper counter), nh (handlers seen), nb (branches seen),
\*       gb (generator: branch), gi (generator: item), depth (generator's per-step stack depth)]

St0 == [ph |-> "opts", out |-> "run", msg |-> "", oi |-> 1, round |-> 1, pos |-> 1, seen |-> {},
        ei |-> 1, ii |-> 1, wc |-> 0, nh |-> 0, nb |-> 0, depth |-> 1]

Fail(s, cls, m) == [s EXCEPT !.ph = "done", !.out = cls, !.msg = m]

\* One peek of the option loop: position pos of round `round`.
OptPeek(I, s) ==
  LET name == OptionOrder[s.pos]
      nxt  == IF s.pos = 4 THEN [s EXCEPT !.pos = 1, !.round = s.round + 1] ELSE [s EXCEPT !.pos = s.pos + 1]
  IN  IF s.round > OptionRounds THEN [s EXCEPT !.ph = "elems"]
      ELSE IF s.oi <= Len(I.opts) /\ I.opts[s.oi] = name
           THEN (IF name \in s.seen THEN Fail(s, "syn_error", name \o " specified twice")
                 ELSE [nxt EXCEPT !.seen = s.seen \cup {name}, !.oi = s.oi + 1])
           ELSE nxt

\* After the option loop an unconsumed option keyword is read as the start of a branch:
\* `name(..) <rest>` is not an expression, the branch parser reports a syntax error.
ElemStart(I, s) ==
  IF s.oi <= Len(I.opts) THEN Fail(s, "syn_error", "leftover option parsed as a branch")
  ELSE IF s.ei > Len(I.elems)
       THEN (IF s.nb = 0 THEN Fail(s, "syn_error", "join must contain at least 1 branch") ELSE [s EXCEPT !.ph = "config"])
  ELSE LET e == I.elems[s.ei] IN
       IF e.t = "handler"
       THEN (IF s.nh > 0 THEN Fail(s, "syn_error", "Multiple handler cases")
             ELSE [s EXCEPT !.nh = 1, !.ei = s.ei + 1])
       ELSE IF e.empty THEN Fail(s, "syn_error", "Chain first expr can't be empty")
       ELSE IF e.let \in NonIdentLets THEN Fail(s, "syn_error", "Incorrect `let` pattern")
       ELSE [s EXCEPT !.ph = "items", !.ii = 1, !.wc = 0]

\* The chain builder consumes one operator of the current branch (builder.rs loop body).
BuilderItem(I, s) ==
  LET e == I.elems[s.ei] IN
  IF s.ii > Len(e.items) THEN [s EXCEPT !.ph = "elems", !.ei = s.ei + 1, !.nb = s.nb + 1]
  ELSE LET it == e.items[s.ii]
           base == IF BuilderResetsAtStep /\ it.deferred THEN 0 ELSE s.wc
           wc2 == base + (IF it.mv = "wrap" /\ it.op # "unwrap" THEN 1 ELSE IF it.op = "unwrap" THEN -1 ELSE 0)
       IN  IF it.op = "unwrap" /\ it.mv = "wrap" THEN Fail(s, "syn_error", "Action can be either wrapped or unwrapped but not both")
           ELSE IF it.mv = "wrap" /\ it.op \notin WrapperOps THEN Fail(s, "syn_error", "This combinator can't be wrapper")
           ELSE IF wc2 < 0 THEN Fail(s, "syn_error", "Unexpected `<<<`")
           ELSE IF it.opnd = "missing" THEN Fail(s, "syn_error", "operand does not parse")
           ELSE IF it.opnd \in MidKinds THEN Fail(s, "syn_error", "only the last operand may be followed by an operator")
           ELSE [s EXCEPT !.wc = wc2, !.ii = s.ii + 1]

\* JoinOutput::new
Config(I, s) ==
  LET hs == Handlers(I)
      h  == IF Len(hs) = 0 THEN "none" ELSE hs[1].h
  IN  IF ~I.kind.try /\ h \in {"map", "and_then"} THEN Fail(s, "config_reject", "and_then or map handler only for try")
      ELSE IF I.kind.try /\ h = "then" THEN Fail(s, "config_reject", "then handler only for non-try")
      ELSE IF ~I.kind.async /\ "path" \in s.seen THEN Fail(s, "config_reject", "futures_crate_path only for async")
      ELSE [s EXCEPT !.ph = "gen", !.ei = 1, !.ii = 1, !.depth = 1]

\* The generator walks every branch again, step by step, with a stack of partial chains.
GenItem(I, s) ==
  IF s.ei > Len(I.elems) THEN [s EXCEPT !.ph = "done", !.out = "ok"]
  ELSE LET e == I.elems[s.ei] IN
       IF e.t = "handler" \/ s.ii > Len(e.items) THEN [s EXCEPT !.ei = s.ei + 1, !.ii = 1, !.depth = 1]
       ELSE LET it == e.items[s.ii]
                d0 == IF it.deferred THEN 1 ELSE s.depth      \* step end: leftovers are closed, a new stack starts
            IN  IF it.op = "unwrap"
                THEN (IF d0 < 2 THEN Fail(s, "panic", "Step expressions length is zero")
                      ELSE [s EXCEPT !.depth = d0 - 1, !.ii = s.ii + 1])
                ELSE IF it.mv = "wrap" THEN [s EXCEPT !.depth = d0 + 1, !.ii = s.ii + 1]
                ELSE [s EXCEPT !.depth = d0, !.ii = s.ii + 1]

ImplStep(I, s) ==
  CASE s.ph = "opts"   -> OptPeek(I, s)
    [] s.ph = "elems"  -> ElemStart(I, s)
    [] s.ph = "items"  -> BuilderItem(I, s)
    [] s.ph = "config" -> Config(I, s)
    [] s.ph = "gen"    -> GenItem(I, s)
    [] OTHER -> s

---------------------------------------------------------------------------
\* input families

Plain(op) == It(op, FALSE, "none")
Missing(op, d) == [op |-> op, deferred |-> d, mv |-> "none", opnd |-> "missing"]
Mid(op, d, kind) == [op |-> op, deferred |-> d, mv |-> "none", opnd |-> kind]
Alpha1 ==   \* representative item alphabet for wrapper structure
  {It("map", d, "none") : d \in BOOLEAN} \cup {It("map", d, "wrap") : d \in BOOLEAN}
  \cup {It("unwrap", d, "none") : d \in BOOLEAN} \cup {It("then", FALSE, "wrap"), It("unwrap", FALSE, "wrap")}
  \cup {It("or_else", FALSE, "wrap"), It("then", TRUE, "none")}

FamWrap(dummy) ==
  {Inp(Kind(FALSE, t, FALSE), <<>>, <<Br("none", items)>>) :
     t \in {TRUE}, items \in SeqsUpTo(Alpha1, IF Tier = "quick" THEN 4 ELSE 5)}
  \cup {Inp(Kind(a, FALSE, FALSE), <<>>, <<Br("none", i1), Br("ident", i2)>>) :
          a \in BOOLEAN, i1 \in SeqsUpTo(Alpha1, 2), i2 \in SeqsUpTo(Alpha1, 2)}

\* every operator with every flag combination (C02's legality half)
FamOps(dummy) ==
  {Inp(Kind(FALSE, FALSE, FALSE), <<>>, <<Br("none", <<It(op, d, mv)>> \o tail)>>) :
     op \in AllOps \cup {"unwrap"}, d \in BOOLEAN, mv \in {"none", "wrap"},
     tail \in {<<>>, <<Plain("map")>>, <<It("unwrap", FALSE, "none")>>, <<Plain("map"), It("unwrap", FALSE, "none")>>}}
  \cup {Inp(Kind(FALSE, FALSE, FALSE), <<>>, <<Br("none", <<Missing(op, d)>> \o tail)>>) :
          op \in AllOps \ NoOperandOps, d \in BOOLEAN, tail \in {<<>>, <<Plain("map")>>}}
  \cup {Inp(kd, <<>>, <<Br("none", pre \o <<Mid(op, d, k)>> \o tail)>>) :
          kd \in Kinds8, op \in {"fold", "try_fold", "unzip"}, d \in BOOLEAN, k \in MidKinds,
          pre \in {<<>>, <<It("map", FALSE, "wrap")>>}, tail \in {<<>>, <<Plain("map")>>}}

\* options: every sequence of up to 5 option names x 8 kinds
FamOpts(dummy) ==
  {Inp(kd, o, <<Br("none", <<Plain("map")>>)>>) : kd \in Kinds8, o \in SeqsUpTo(OptionNames, IF Tier = "quick" THEN 4 ELSE 5)}

\* handlers x kinds x positions x duplicates; let patterns; empty branches; no branch
FamElems(dummy) ==
  LET B == {Br(l, <<Plain("map")>>) : l \in {"none", "ident", "mut", "tuple"}} \cup {EmptyBr}
      H == {Hd(h) : h \in {"map", "and_then", "then"}}
  IN  {Inp(kd, <<>>, es) : kd \in Kinds8, es \in SeqsUpTo(B \cup H, IF Tier = "quick" THEN 3 ELSE 4)}

\* every `let` pattern kind x position among 1..3 branches x with/without actions, deferred actions, handler x kinds
FamLets(dummy) ==
  LET Items == {<<>>, <<Plain("map")>>, <<Plain("map"), It("and_then", TRUE, "none")>>}
      Plainb == Br("none", <<Plain("map")>>)
      One == {Br(l, its) : l \in IdentLets \cup NonIdentLets, its \in Items}
      Bs == {<<b>> : b \in One} \cup {<<b, Plainb>> : b \in One} \cup {<<Plainb, b>> : b \in One}
              \cup {<<Plainb, Plainb, b>> : b \in One} \cup {<<b1, b2>> : b1 \in {Br(l, <<>>) : l \in NonIdentLets}, b2 \in {Br(l, <<>>) : l \in IdentLets \cup NonIdentLets}}
      Hs == {<<>>} \cup (IF Tier = "quick" THEN {<<Hd("map")>>, <<Hd("then")>>} ELSE {<<Hd(h)>> : h \in {"map", "and_then", "then"}})
  IN  {Inp(kd, <<>>, bs \o h) : kd \in Kinds8, bs \in Bs, h \in Hs}

\* options x handlers: every pair of options in front of 1-2 branches with each handler kind (or none), 8 kinds
FamOptsH(dummy) ==
  LET Plainb == Br("none", <<Plain("map")>>)
  IN  {Inp(kd, o, bs \o h) : kd \in Kinds8, o \in SeqsUpTo(OptionNames, 2), bs \in {<<Plainb>>, <<Plainb, Plainb>>},
                             h \in {<<>>} \cup {<<Hd(x)>> : x \in {"map", "and_then", "then"}}}

Inputs(dummy) ==
  TLCEval(CASE Family = "wrap" -> FamWrap(0)
            [] Family = "optsh" -> FamOptsH(0)
            [] Family = "lets" -> FamLets(0)
            [] Family = "ops" -> FamOps(0)
            [] Family = "opts" -> FamOpts(0)
            [] Family = "elems" -> FamElems(0))

\* the outcome of the implementation model as a function of the input (used to judge
\* the outcomes observed on the real parser + generator)
RECURSIVE RunImpl(_, _)
RunImpl(I, s) == IF s.ph = "done" THEN s ELSE RunImpl(I, ImplStep(I, s))
Outcome(I) == RunImpl(I, St0).out

\* vocabulary of the token soups (C15's "for all token streams"); the soups themselves are the
\* full product up to a length bound, judged by the totality clause of the property
Vocabulary ==
  <<"v", "f", "{ f }", "(a, b)", "[a]", ",", "~", ">>>", "<<<", "|>", "=>", "->", "<|", "<=", "..", ">.", "!>", "??", "?>",
    ">@>", "?|>@", "?|>", "|n>", "?&!>", "^^>", "^@", "?^@", "?@", ">^>", "<->", "=>[]", "let x =", "let (a, b) =",
    "map =>", "and_then =>", "then =>", "m()", "Vec<_>",
    "futures_crate_path(::futures)", "custom_joiner(j)", "transpose_results(false)", "lazy_branches(true)">>

---------------------------------------------------------------------------
Init == inp = [pick |-> TRUE] /\ st = St0
Pick == /\ "pick" \in DOMAIN inp
        /\ \E i \in Inputs(0) : inp' = i
        /\ UNCHANGED st
Step == /\ "elems" \in DOMAIN inp /\ st.ph # "done"
        /\ st' = ImplStep(inp, st)
        /\ UNCHANGED inp
Next == Pick \/ Step
Spec == Init /\ [][Next]_svars

Picked == "elems" \in DOMAIN inp
\* C15: never an internal panic
NoInternal == Picked => st.out # "panic"
\* accepted exactly when structurally valid
AcceptsValid == (Picked /\ st.ph = "done") => (st.out = "ok" <=> Valid(inp))
\* a rejection carries a message
Rejections == (Picked /\ st.ph = "done" /\ st.out # "ok") => st.msg # ""

EmitVocab == ("pick" \in DOMAIN inp) => PrintT(<<"VOCAB", ToJson(Vocabulary)>>)
EmitCase ==
  (Picked /\ st.ph = "done") =>
     PrintT(<<"CASE", ToJson([inp |-> inp, out |-> st.out, msg |-> st.msg, valid |-> Valid(inp)])>>)
=============================================================================
