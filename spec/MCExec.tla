------------------------------ MODULE MCExec ------------------------------
(***************************************************************************)
(* Model-checking instances of JoinExec.  A "family" is a finite set of     *)
(* runs (program, fault plan, gated ids) chosen in Init, so one TLC run     *)
(* covers the whole family under every interleaving / schedule.  The same   *)
(* runs are emitted as JSON (one line per terminal state) and replayed into *)
(* the real macros by the harness.                                          *)
(***************************************************************************)
EXTENDS JoinExec, Json, TLCExt, SequencesExt

CONSTANTS Family,      \* which run family (string)
          Tier,        \* "quick" | "thorough"
          Quiescent,   \* env actions only at quiescent states (schedule emission)
          TrackHist,   \* keep the event history (order properties)
          Emit,        \* print one RUN line per terminal state
          MaxSpurious, \* spurious polls per run (schedule emission)
          Reduce       \* partial-order reduction: drops first; sequential layers run the lowest runnable branch

VARIABLES s, sched, hist
mvars == <<s, sched, hist>>

---------------------------------------------------------------------------
\* program construction helpers

Item(id, op, form, reads) == [id |-> id, op |-> op, form |-> form, reads |-> reads]
Kind(a, t, sp) == [async |-> a, try |-> t, spawn |-> sp]
Kinds8 == {Kind(a, t, sp) : a \in BOOLEAN, t \in BOOLEAN, sp \in BOOLEAN}
SyncKinds == {Kind(FALSE, t, sp) : t \in BOOLEAN, sp \in BOOLEAN}
DefOpts == [joiner |-> "none", lazy |-> "default", transpose |-> "default", path |-> "default"]

IidOf(b) == 100 * (b + 1)
IdOf(b, k, j) == 100 * (b + 1) + 10 * k + j      \* k: step (0-based), j: position (1-based)

Branch(b, name, init, steps) == [name |-> name, init |-> init, iid |-> IidOf(b), steps |-> steps]

Prog(kind, carrier, branches, handler) ==
  [kind |-> kind, carrier |-> carrier, caller |-> "named", branches |-> branches,
   handler |-> handler, hform |-> "closure", hid |-> 90, hpos |-> Len(branches), opts |-> DefOpts]

\* depth profiles: sequences of n depths in 1..d
Profiles(nmax, dmax) == UNION {[1 .. n -> 1 .. dmax] : n \in 1 .. nmax}

Run(P, PL, G) == [prog |-> P, plan |-> PL, gates |-> G]

F(id) == [t |-> "f", id |-> id, a |-> "fail"]
Rcv(id) == [t |-> "f", id |-> id, a |-> "recover"]

\* all ids of items with the given ops
ItemIds(P, ops) ==
  UNION {UNION {{Items(P, b, k)[j].id : j \in {x \in 1 .. Len(Items(P, b, k)) : Items(P, b, k)[x].op \in ops}}
               : k \in 0 .. (Depth(P, b) - 1)} : b \in BrSet(P)}
InitIds(P) == {P.branches[b + 1].iid : b \in BrSet(P)}

SubsetsUpTo(S, n) ==
  {{}} \cup (IF n >= 1 THEN {{x} : x \in S} ELSE {})
       \cup (IF n >= 2 THEN {{x, y} : x \in S, y \in S} ELSE {})
       \cup (IF n >= 3 THEN {{x, y, z} : x \in S, y \in S, z \in S} ELSE {})
FailPlans(ids, n) == {[i \in 1 .. Cardinality(T) |-> F(SetToSeq(T)[i])] : T \in SubsetsUpTo(ids, n)}

---------------------------------------------------------------------------
\* families

\* C04: every depth profile, one callback per step, no faults
StepsC04(b, d, try) ==
  [k \in 1 .. d |-> <<Item(IdOf(b, k - 1, 1), IF try /\ k % 2 = 0 THEN "and_then" ELSE "map", "closure", <<>>)>>]
ProgC04(kind, prof, h) ==
  Prog(kind, "res",
       [i \in 1 .. Len(prof) |-> Branch(i - 1, IF i % 2 = 0 THEN "let" ELSE "none", "expr", StepsC04(i - 1, prof[i], kind.try))],
       IF h THEN (IF kind.try THEN "map" ELSE "then") ELSE "none")
FamC04(dummy) ==
  LET nmax == IF Tier = "quick" THEN 3 ELSE 4
      dmax == 3
  IN  {Run(ProgC04(kd, pr, h), <<>>, {}) : kd \in Kinds8, pr \in Profiles(nmax, dmax), h \in BOOLEAN}

\* C05/C06: try macros, every placement of <= 2 (quick) / 3 failures over and_then items and initial values
StepsC05(b, d, variant) ==
  [k \in 1 .. d |->
     IF variant = 1 /\ k = 1
     THEN <<Item(IdOf(b, 0, 1), "and_then", "closure", <<>>), Item(IdOf(b, 0, 2), "or_else", "closure", <<>>)>>
     ELSE IF variant = 2
     THEN <<Item(IdOf(b, k - 1, 1), "and_then", IF k > 1 THEN "block" ELSE "call", <<>>)>>
     ELSE <<Item(IdOf(b, k - 1, 1), "and_then", "closure", <<>>)>>]
ProgC05(kind, prof, variant, h, carrier) ==
  Prog(kind, carrier,
       [i \in 1 .. Len(prof) |-> Branch(i - 1, "none", "expr", StepsC05(i - 1, prof[i], variant))],
       h)
PlansC05(P, variant) ==
  LET ids == ItemIds(P, {"and_then"}) \cup (IF variant = 0 THEN InitIds(P) ELSE {})
      base == FailPlans(ids, IF Tier = "quick" THEN 2 ELSE 3)
  IN  IF variant # 1 THEN base
      ELSE base \cup {pl \o <<Rcv(IdOf(0, 0, 2))>> : pl \in base}
TryKinds == {Kind(a, TRUE, sp) : a \in BOOLEAN, sp \in BOOLEAN}
FamC05(dummy) ==
  LET nmax == 3  dmax == IF Tier = "quick" THEN 2 ELSE 3
      profs == {pr \in Profiles(nmax, 3) : Tier # "quick" \/ Len(pr) <= 2 \/ \A i \in 1 .. Len(pr) : pr[i] <= dmax \/ pr = <<1, 3, 3>>}
  IN  UNION {{Run(ProgC05(kd, pr, v, h, "res"), pl, {}) : pl \in PlansC05(ProgC05(kd, pr, v, h, "res"), v)}
             : kd \in TryKinds, pr \in profs, v \in 0 .. 2, h \in {"none", "map"}}

Runs(dummy) ==
  TLCEval(CASE Family = "C04" -> FamC04(0)
            [] Family = "C05" -> FamC05(0))

---------------------------------------------------------------------------
\* the machine

\* The run is picked by the first step (cheaper for TLC than thousands of initial states).
Init ==
  /\ s = [ph |-> "pick"]
  /\ sched = <<>>
  /\ hist = <<>>

Pick ==
  /\ s.ph = "pick"
  /\ \E r \in Runs(0) : s' = InitState(r.prog, r.plan, r.gates)
  /\ UNCHANGED <<sched, hist>>

ArrivedSet(st) ==
  {IdAt(st, b) : b \in {c \in Active(st.prog, st.k) \ st.ended : st.pc[c].ph \in {"w", "x"} /\ st.arrived[c]}}
  \cup (IF st.ph = "hawait" /\ st.hparked THEN {st.prog.hid} ELSE {})

QuiescentNow == BranchEvents(s) = {} /\ StepEvents(s) = {} /\ HandlerEvents(s) = {}

SE(a, ids, arr, done, hold) == [a |-> a, ids |-> ids, arrived |-> arr, done |-> done, hold |-> hold]
Spurious(q) == Cardinality({i \in 1 .. Len(q) : q[i].a = "poll" /\ q[i].hold})

\* Sound for every property stated here: drops commute with everything, and the branches of a
\* sequential macro (or of one poll of a plain async macro) do not interleave in reality.
Reduced(e) ==
  LET P == s.prog IN
  /\ (s.garbage # {} /\ ~s.dropsFree) => (e.ev = "drop" /\ \A v \in s.garbage : <<e.v.b, e.v.n>> = <<v.b, v.n>> \/ e.v.b < v.b \/ (e.v.b = v.b /\ e.v.n <= v.n))
  /\ (e.b >= 0 /\ e.ev \in {"init", "opnd", "enter", "arrive", "exit", "panic"}
      /\ (~IsSpawn(P) \/ Cardinality(Active(P, s.k)) < 2))
     => \A c \in BrSet(P) : (c < e.b /\ MayRun(s, c)) => BranchEvent(s, c) = {}

Step ==
  \E e \in NextEvents(s) :
     /\ Reduce => Reduced(e)
     /\ (e.ev = "poll" /\ Quiescent) => (~s.polled \/ s.woken \/ s.sinceWake \/ Spurious(sched) < MaxSpurious)
     /\ s' = Apply(s, e)
     /\ hist' = IF TrackHist THEN Append(hist, [ev |-> e.ev, id |-> e.id, b |-> e.b, k |-> s.k]) ELSE hist
     /\ sched' = IF e.ev = "pollend" /\ Emit
                 THEN Append(sched, SE("poll", <<>>, SetToSeq(ArrivedSet(s')), e.id = 1, s.spur))
                 ELSE sched

\* environment of the thread-spawning macros: release one gate
Release ==
  /\ ~IsAsync(s.prog)
  /\ \E g \in s.gates \ s.released :
        /\ Quiescent => (QuiescentNow /\ g \in ArrivedSet(s))
        /\ s' = ApplyRelease(s, {g})
        /\ sched' = IF ~Emit THEN sched ELSE Append(sched, SE("rel", <<g>>, SetToSeq(ArrivedSet(s)), FALSE,
                                     ArrivedSet(s) = {g} /\ \A b \in Active(s.prog, s.k) \ s.ended :
                                                               s.pc[b].ph = "x" /\ IdAt(s, b) = g))
        /\ hist' = IF TrackHist THEN Append(hist, [ev |-> "release", id |-> g, b |-> -1, k |-> s.k]) ELSE hist

\* environment of the async macros: a batch of gates becomes ready (between polls)
Ready ==
  /\ IsAsync(s.prog) /\ ~s.inpoll /\ s.ph \notin {"new", "created0", "ended", "closed"} /\ ~s.polldone
  /\ \E G \in (SUBSET (s.gates \ s.released)) \ {{}} :
        /\ Quiescent => G \subseteq ArrivedSet(s)
        /\ s' = ApplyRelease(s, G)
        /\ sched' = IF ~Emit THEN sched ELSE Append(sched, SE("ready", SetToSeq(G), <<>>, FALSE, FALSE))
        /\ hist' = hist

Next == IF s.ph = "pick" THEN Pick ELSE (Step \/ Release \/ Ready)

Spec == Init /\ [][Next]_mvars

---------------------------------------------------------------------------
\* schedule-free reference: what the property says the result is.
\* RefVal(b, st) is branch b's value after step st, evaluated alone.

RECURSIVE RunItems(_, _, _, _, _, _)
RunItems(P, PL, b, its, i, v) ==
  IF i > Len(its) THEN v
  ELSE LET it == its[i]
           nv == IF it.op = "or" THEN (IF v.ok THEN v ELSE AltV(P, PL, b, it.id))
                 ELSE IF Invoked(P, it.op, v) THEN After(P, it.op, ActOf(PL, "f", it.id), v, it.id, b)
                 ELSE v
       IN  RunItems(P, PL, b, its, i + 1, nv)

RECURSIVE RefVal(_, _, _, _)
RefVal(P, PL, b, st) ==   \* st >= 0, st < Depth(b)
  LET v0 == IF st = 0 THEN InitV(P, PL, b) ELSE RefVal(P, PL, b, st - 1)
  IN  RunItems(P, PL, b, Items(P, b, st), 1, v0)

FinalRef(P, PL, b) == RefVal(P, PL, b, Depth(P, b) - 1)
\* value of b once step st is over (its last own step if it finished earlier)
RefAt(P, PL, b, st) == RefVal(P, PL, b, IF st < Depth(P, b) THEN st ELSE Depth(P, b) - 1)
FailSteps(P, PL) == {st \in 0 .. (MaxDepth(P) - 1) : \E b \in Active(P, st) : ~RefVal(P, PL, b, st).ok}

NoPanic(PL) == \A i \in 1 .. Len(PL) : PL[i].a # "panic"

---------------------------------------------------------------------------
\* properties (A)

TypeOK == s.ph \in {"pick", "new", "created0", "idle", "step", "hwait", "hawait", "fin", "afail", "ended", "closed"}

\* C04: position i holds branch i's final value; finished branches keep theirs
Routing ==
  (Done(s) /\ ~s.panicked /\ s.prog.handler = "none" /\ s.res.t \in {"ok", "tuple"}) =>
     /\ Len(s.res.vals) = NB(s.prog)
     /\ \A b \in BrSet(s.prog) : s.res.vals[b + 1] = FinalRef(s.prog, s.plan, b)
HandlerArgs ==
  (s.ph = "hwait") => \A b \in BrSet(s.prog) : s.res.vals[b + 1] = FinalRef(s.prog, s.plan, b)

\* C05: Ok(tuple) iff no branch ends a step failing; otherwise the failure of the earliest
\* failing step, of the lowest failing branch for sync/spawn, of some failing branch for async.
TryResult ==
  (Done(s) /\ IsTry(s.prog) /\ NoPanic(s.plan)) =>
     LET P == s.prog  PL == s.plan  FS == FailSteps(P, PL) IN
     IF FS = {} THEN s.res.t = "ok" \/ (P.handler = "and_then" /\ s.res.t = "err" /\ s.res.vals[1].b = 100)
     ELSE LET K == Min(FS)
              fb == {b \in Active(P, K) : ~RefVal(P, PL, b, K).ok}
          IN  /\ s.res.t = "err"
              /\ IF IsAsync(P) THEN \E b \in fb : s.res = ResErr(P, RefVal(P, PL, b, K))
                 ELSE s.res = ResErr(P, RefVal(P, PL, Min(fb), K))

\* C07: the result does not depend on the spawn bit nor on the schedule (sync/spawn: a function of (program, plan))
Determinate ==
  (Done(s) /\ NoPanic(s.plan) /\ ~IsAsync(s.prog) /\ ~IsTry(s.prog) /\ s.prog.handler = "none") =>
     \A b \in BrSet(s.prog) : s.res.vals[b + 1] = FinalRef(s.prog, s.plan, b)

\* C06: after an abort nothing of a later step and no map/and_then handler ran
AbortNothingLater ==
  (TrackHist /\ s.ph # "pick" /\ IsTry(s.prog) /\ NoPanic(s.plan) /\ FailSteps(s.prog, s.plan) # {}) =>
     LET K == Min(FailSteps(s.prog, s.plan)) IN
     \A i \in 1 .. Len(hist) : hist[i].ev \in {"init", "opnd", "cap", "enter", "exit", "hcall", "joiner"} =>
         (hist[i].k <= K /\ hist[i].ev # "hcall")

\* C03: no event of step k+1 before every branch active in step k has finished step k
BarrierInv ==
  TrackHist =>
    \A i, j \in 1 .. Len(hist) :
       (i < j /\ hist[i].ev \in {"init", "opnd", "cap", "enter"} /\ hist[j].ev \in {"exit", "enter", "init", "opnd"}
        /\ hist[j].b >= 0) => hist[i].k <= hist[j].k

\* everything that was dropped or returned; nothing is left over
NoLeak == (Done(s) /\ ~s.dropsFree) => s.garbage = {}

\* vacuity guards / emission
EmitRun ==
  (Emit /\ Done(s) /\ (s.ph = "closed" \/ ~IsAsync(s.prog))) =>
     PrintT(<<"RUN", ToJson([prog |-> s.prog, plan |-> s.plan, gates |-> SetToSeq(s.gates), sched |-> sched, res |-> s.res])>>)

View == <<s, sched>>
=============================================================================
