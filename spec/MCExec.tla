------------------------------ MODULE MCExec ------------------------------
(***************************************************************************)
(* Model-checking instances of JoinExec.  A "family" is a finite set of     *)
(* runs (program, fault plan, gated ids) chosen in Init, so one TLC run     *)
(* covers the whole family under every interleaving / schedule.  The same   *)
(* runs are emitted as JSON (one line per terminal state) and replayed into *)
(* the real macros by the harness.                                          *)
(***************************************************************************)
EXTENDS JoinExec, Json, TLCExt, SequencesExt

CONSTANTS Family,      \* which run family (string)
          Tier,        \* "quick" | "thorough"
          Quiescent,   \* env actions only at quiescent states (schedule emission)
          TrackHist,   \* keep the event history (order properties)
          Emit,        \* print one RUN line per terminal state
          MaxSpurious, \* spurious polls per run (schedule emission)
          Live,        \* count steps and forbid non-terminal dead ends (completion without ENABLED/fairness machinery)
          Reduce       \* partial-order reduction: drops first; sequential layers run the lowest runnable branch

VARIABLES s, sched, hist, nsteps
mvars == <<s, sched, hist, nsteps>>

---------------------------------------------------------------------------
\* program construction helpers

Item(id, op, form, reads) == [id |-> id, op |-> op, form |-> form, reads |-> reads]
Kind(a, t, sp) == [async |-> a, try |-> t, spawn |-> sp]
Kinds8 == {Kind(a, t, sp) : a \in BOOLEAN, t \in BOOLEAN, sp \in BOOLEAN}
SyncKinds == {Kind(FALSE, t, sp) : t \in BOOLEAN, sp \in BOOLEAN}
DefOpts == [joiner |-> "none", lazy |-> "default", transpose |-> "default", path |-> "default"]

IidOf(b) == 100 * (b + 1)
IdOf(b, k, j) == 100 * (b + 1) + 10 * k + j      \* k: step (0-based), j: position (1-based)

Branch(b, name, init, steps) == [name |-> name, init |-> init, iid |-> IidOf(b), steps |-> steps]

Prog(kind, carrier, branches, handler) ==
  [kind |-> kind, carrier |-> carrier, caller |-> "named", macro |-> "", branches |-> branches,
   handler |-> handler, hform |-> "closure", hid |-> 90, hpos |-> Len(branches), opts |-> DefOpts]

\* generic builder: prof = sequence of depths; S(b, k) = items of step k of branch b
Build(kind, carrier, prof, S(_, _), Nm(_), In(_), h) ==
  Prog(kind, carrier,
       [i \in 1 .. Len(prof) |-> Branch(i - 1, Nm(i - 1), In(i - 1),
                                         IF prof[i] = 0 THEN << <<>> >>      \* depth 0: only the initial expression
                                         ELSE [k \in 1 .. prof[i] |-> S(i - 1, k - 1)])], h)
NoName(b) == "none"
ExprInit(b) == "expr"
DefaultHandler(kind) == IF kind.try THEN "map" ELSE "then"

\* depth profiles: sequences of n depths in 1..d
Profiles(nmax, dmax) == UNION {[1 .. n -> 1 .. dmax] : n \in 1 .. nmax}

Run(P, PL, G) == [prog |-> P, plan |-> PL, gates |-> G]

F(id) == [t |-> "f", id |-> id, a |-> "fail"]
Rcv(id) == [t |-> "f", id |-> id, a |-> "recover"]

\* all ids of items with the given ops
ItemIds(P, ops) ==
  UNION {UNION {{Items(P, b, k)[j].id : j \in {x \in 1 .. Len(Items(P, b, k)) : Items(P, b, k)[x].op \in ops}}
               : k \in 0 .. (Depth(P, b) - 1)} : b \in BrSet(P)}
InitIds(P) == {P.branches[b + 1].iid : b \in BrSet(P)}
AllItemIds(P) == ItemIds(P, {"map", "and_then", "or_else", "map_err", "then", "inspect", "or", "dot", "filter"})

SubsetsUpTo(S, n) ==
  {{}} \cup (IF n >= 1 THEN {{x} : x \in S} ELSE {})
       \cup (IF n >= 2 THEN {{x, y} : x \in S, y \in S} ELSE {})
       \cup (IF n >= 3 THEN {{x, y, z} : x \in S, y \in S, z \in S} ELSE {})
FailPlans(ids, n) == {[i \in 1 .. Cardinality(T) |-> F(SetToSeq(T)[i])] : T \in SubsetsUpTo(ids, n)}

---------------------------------------------------------------------------
\* families

\* C04: every depth profile, one callback per step, no faults
StepsC04(b, d, try) ==
  [k \in 1 .. d |-> <<Item(IdOf(b, k - 1, 1), IF try /\ k % 2 = 0 THEN "and_then" ELSE "map", "closure", <<>>)>>]
ProgC04c(kind, carrier, prof, h) ==
  Prog(kind, carrier,
       [i \in 1 .. Len(prof) |-> Branch(i - 1, IF i % 2 = 0 THEN "let" ELSE "none", "expr",
                                         IF prof[i] = 0 THEN << <<>> >> ELSE StepsC04(i - 1, prof[i], kind.try))],
       IF h THEN (IF kind.try THEN "map" ELSE "then") ELSE "none")
ProgC04(kind, prof, h) == ProgC04c(kind, "res", prof, h)
\* depth 0: a branch that is only its initial expression (one step without any action)
BareC04 == {<<0>>, <<0, 0>>, <<0, 1>>, <<1, 0>>, <<0, 2>>, <<2, 0, 1>>, <<0, 0, 2>>, <<3, 0>>}
WideC04 == {<<2, 1, 3, 1, 2>>, <<1, 3, 2, 3, 1, 2>>, <<3, 2, 1, 1, 2, 3>>}      \* five and six branches, non-monotone
FamC04(dummy) ==
  LET nmax == IF Tier = "quick" THEN 3 ELSE 4
      dmax == 3
  IN  {Run(ProgC04(kd, pr, h), <<>>, {}) : kd \in Kinds8, pr \in Profiles(nmax, dmax) \cup WideC04 \cup BareC04, h \in BOOLEAN}
      \cup {Run(ProgC04c(Kind(FALSE, t, sp), "opt", pr, h), <<>>, {}) : t \in BOOLEAN, sp \in BOOLEAN, h \in BOOLEAN,
               pr \in {<<2>>, <<1, 2>>, <<3, 1, 2>>, <<1, 2, 2>>, <<2, 1, 3, 1, 2>>}}
      \* every branch has a `let` name and the handler's parameters are spelled like those names, in another order (`hperm`: read
      \* by the generator only): the handler is called positionally, what its parameters are called is the user's business
      \cup {Run([ProgC04(kd, pr, TRUE) EXCEPT !.branches = [i \in 1 .. Len(pr) |-> [@[i] EXCEPT !.name = IF i % 2 = 0 THEN "letmut" ELSE "let"]]] @@ [hperm |-> TRUE], <<>>, {}) :
               kd \in Kinds8, pr \in {<<1, 1>>, <<1, 2>>, <<2, 1, 2>>, <<1, 3, 2>>}}
      \* a custom joiner between the branches and the step tuple (steps with one active branch must not go through it)
      \cup {Run([ProgC04(kd, pr, h) EXCEPT !.opts = [joiner |-> "eager", lazy |-> "default", transpose |-> "default", path |-> "default"]], <<>>, {}) :
               kd \in Kinds8, h \in BOOLEAN, pr \in {<<2>>, <<2, 1>>, <<1, 3, 2>>, <<2, 2, 1>>}}

\* C05/C06: try macros, every placement of <= 2 (quick) / 3 failures over and_then items and initial values
StepsC05(b, d, variant) ==
  [k \in 1 .. d |->
     IF variant = 3 /\ k > 1      \* later steps led by an operator that acts on the failure side / on the whole value
     THEN <<Item(IdOf(b, k - 1, 1), CASE (b + k) % 3 = 0 -> "map_err" [] (b + k) % 3 = 1 -> "or_else" [] OTHER -> "then", "closure", <<>>),
            Item(IdOf(b, k - 1, 2), "and_then", "closure", <<>>)>>
     ELSE IF variant = 1 /\ k = 1
     THEN <<Item(IdOf(b, 0, 1), "and_then", "closure", <<>>), Item(IdOf(b, 0, 2), "or_else", "closure", <<>>)>>
     ELSE IF variant = 2
     THEN <<Item(IdOf(b, k - 1, 1), "and_then", IF k > 1 THEN "block" ELSE "call", <<>>)>>
     ELSE <<Item(IdOf(b, k - 1, 1), "and_then", "closure", <<>>)>>]
ProgC05(kind, prof, variant, h, carrier) ==
  Prog(kind, carrier,
       [i \in 1 .. Len(prof) |-> Branch(i - 1, "none", "expr", StepsC05(i - 1, prof[i], variant))],
       h)
PlansC05(P, variant) ==
  LET ids == ItemIds(P, {"and_then"}) \cup (IF variant = 0 THEN InitIds(P) ELSE {})
      base == FailPlans(ids, IF Tier = "quick" THEN 2 ELSE 3)
  IN  IF variant # 1 THEN base
      ELSE base \cup {pl \o <<Rcv(IdOf(0, 0, 2))>> : pl \in base}
TryKinds == {Kind(a, TRUE, sp) : a \in BOOLEAN, sp \in BOOLEAN}
FamC05(dummy) ==
  LET nmax == 3  dmax == IF Tier = "quick" THEN 2 ELSE 3
      profs == {pr \in Profiles(nmax, 3) : Tier # "quick" \/ Len(pr) <= 2 \/ \A i \in 1 .. Len(pr) : pr[i] <= dmax \/ pr = <<1, 3, 3>>}
  IN  UNION {{Run(ProgC05(kd, pr, v, h, "res"), pl, {}) : pl \in PlansC05(ProgC05(kd, pr, v, h, "res"), v)}
             : kd \in TryKinds, pr \in profs, v \in 0 .. 2, h \in {"none", "map"}}
      \cup UNION {{Run(ProgC05(kd, pr, 3, h, "res"), pl, {}) : pl \in FailPlans(ItemIds(ProgC05(kd, pr, 3, h, "res"), {"and_then"}), 2)}
                  : kd \in TryKinds, pr \in {<<2, 2>>, <<1, 3>>, <<3, 1, 2>>}, h \in {"none", "map"}}


\* ---- C03: barrier under every release / readiness order.  Every and_then is gated.
StepC03(b, k) ==
  IF k = 0 THEN <<Item(IdOf(b, 0, 1), "and_then", "call", <<>>)>>
  ELSE <<Item(IdOf(b, k, 1), "and_then", "block", <<>>), Item(IdOf(b, k, 2), "map", "call", <<>>)>>
ProfC03 == IF Tier = "quick" THEN Profiles(3, 2) \cup {<<3>>, <<3, 3>>, <<3, 1, 2>>} ELSE Profiles(3, 3)
FamC03s(dummy) ==
  {Run(P, <<>>, ItemIds(P, {"and_then"})) :
     P \in {Build(Kind(FALSE, t, TRUE), "res", pr, StepC03, NoName, ExprInit, "none") : t \in BOOLEAN, pr \in ProfC03}}
FamC03a(dummy) ==
  {Run(P, <<>>, ItemIds(P, {"and_then"})) :
     P \in {Build(Kind(TRUE, t, sp), "res", pr, StepC03, NoName, ExprInit, "none") :
              t \in BOOLEAN, sp \in BOOLEAN,
              pr \in IF Tier = "quick" THEN {q \in ProfC03 : Len(q) <= 2 \/ q = <<2, 1, 2>>}
                     ELSE Profiles(2, 3) \cup {<<2, 1, 2>>, <<1, 2, 2>>, <<2, 2, 2>>, <<3, 1, 2>>}}}
\* the barrier while the construction of step 0 is suspended by an awaiting initial expression (second branch): the first
\* branch's task runs ahead, but nothing of step 1 starts before the late branch is through step 0
FamC03w(dummy) ==
  {Run(P, <<>>, ItemIds(P, {"and_then"}) \cup {IidOf(1) + 9}) :
     P \in {LET In(b) == IF b = 1 THEN "await" ELSE "expr" IN Build(Kind(TRUE, t, sp), "res", pr, StepC03, NoName, In, "none") :
              t \in BOOLEAN, sp \in BOOLEAN, pr \in IF Tier = "quick" THEN {<<2, 1>>, <<1, 2>>} ELSE {<<2, 1>>, <<1, 2>>, <<2, 2>>}}}
\* sequential macros and small concurrent ones with the full history (order invariants)
FamC03h(dummy) ==
  {Run(P, <<>>, IF P.kind.spawn \/ P.kind.async THEN ItemIds(P, {"and_then"}) ELSE {}) :
     P \in {Build(kd, "res", pr, StepC03, NoName, ExprInit, "none") : kd \in {q \in Kinds8 : ~q.spawn}, pr \in {<<2, 2>>, <<1, 2>>, <<2, 1, 2>>}}}

\* every operator class as the first action behind `~` (its block capture makes the step boundary visible even where
\* the callback itself is not called), all eight kinds
StepC03v(op, b, k) ==
  IF k = 0 THEN <<Item(IdOf(b, 0, 1), "and_then", "call", <<>>)>>
  ELSE <<Item(IdOf(b, k, 1), op, IF op = "or" THEN "call" ELSE "block", <<>>), Item(IdOf(b, k, 2), "and_then", "closure", <<>>)>>
HasOp(P, o) == \E b \in BrSet(P) : \E k \in 0 .. (Depth(P, b) - 1) : \E j \in 1 .. Len(Items(P, b, k)) : Items(P, b, k)[j].op = o
FamC03v(dummy) ==
  LET Ps == {LET S(b, k) == StepC03v(op, b, k) IN Build(kd, "res", pr, S, NoName, ExprInit, "none") :
               kd \in Kinds8, op \in {"map", "then", "inspect", "or_else", "map_err", "or"}, pr \in {<<2, 2>>, <<1, 2>>}}
  IN  {Run(P, <<>>, IF P.kind.spawn \/ P.kind.async THEN ItemIds(P, {"and_then"}) ELSE {}) :
         P \in {Q \in Ps : ~(Q.kind.async /\ HasOp(Q, "or"))}}      \* futures have no `.or`

SumDepth(P) == LET f[i \in 0 .. NB(P)] == IF i = 0 THEN 0 ELSE f[i - 1] + Depth(P, i - 1) IN f[NB(P)]
\* ---- C06: abort.  Later steps carry captures, call operands and a handler.
StepC06(b, k) ==
  IF k = 0 THEN <<Item(IdOf(b, 0, 1), "and_then", "closure", <<>>)>>
  ELSE <<Item(IdOf(b, k, 1), "and_then", "block", <<>>), Item(IdOf(b, k, 2), "map", "call", <<>>)>>
FamC06(dummy) ==
  UNION {{Run(P, pl, IF (P.kind.spawn /\ ~P.kind.async) \/ (P.kind.async /\ (NB(P) <= 2 \/ (Tier # "quick" /\ SumDepth(P) <= 6)))
                     THEN ItemIds(P, {"and_then"}) ELSE {}) :
            pl \in FailPlans(ItemIds(P, {"and_then"}), IF Tier = "quick" THEN 1 ELSE 2)} :
         P \in {Build(kd, "res", pr, StepC06, NoName, ExprInit, "map") : kd \in TryKinds,
                  pr \in IF Tier = "quick" THEN {<<3>>, <<2, 2>>, <<1, 3>>, <<3, 1, 2>>, <<2, 3, 3>>} ELSE Profiles(3, 3)}}
FamC06h(dummy) ==
  UNION {{Run(P, pl, {}) : pl \in FailPlans(ItemIds(P, {"and_then"}), 2)} :
         P \in {Build(kd, "res", pr, StepC06, NoName, ExprInit, "map") : kd \in {q \in TryKinds : ~q.spawn}, pr \in {<<2, 2>>, <<1, 3>>, <<3, 1, 2>>}}}

\* ---- C07: every macro name, aliases included, on a mixed corpus
MacroNames(kind) ==
  LET base == (IF kind.try THEN "try_" ELSE "") \o "join" \o (IF kind.async THEN "_async" ELSE "") \o (IF kind.spawn THEN "_spawn" ELSE "")
      alias == (IF kind.try THEN "try_" ELSE "") \o (IF kind.async THEN "async_" ELSE "") \o "spawn"
  IN  IF kind.spawn THEN {base, alias} ELSE {base}
AliasOf(kind) == (IF kind.try THEN "try_" ELSE "") \o (IF kind.async THEN "async_" ELSE "") \o "spawn"
StepC07(b, k) == <<Item(IdOf(b, k, 1), "and_then", IF k = 1 THEN "block" ELSE "closure", <<>>), Item(IdOf(b, k, 2), "or_else", "closure", <<>>)>>
\* `->` opens the later steps: it receives the whole carrier, so a macro name that hands on something else is seen
StepC07t(b, k) == <<Item(IdOf(b, k, 1), "then", "closure", <<>>), Item(IdOf(b, k, 2), "and_then", "closure", <<>>)>>
StepC07o(b, k) == <<Item(IdOf(b, k, 1), "and_then", "closure", <<>>), Item(IdOf(b, k, 2), "or_else", "closure", <<>>), Item(IdOf(b, k, 3), "map", "closure", <<>>)>>
FamC07(dummy) ==
  UNION {UNION {{Run([P EXCEPT !.macro = m], pl, {}) : m \in MacroNames(P.kind)} :
                pl \in FailPlans(ItemIds(P, {"and_then"}), 1) \cup {<<F(IdOf(0, 0, 1)), Rcv(IdOf(0, 0, 2))>>}} :
         P \in {Build(kd, "res", pr, StepC07, NoName, ExprInit, IF h = "dflt" THEN DefaultHandler(kd) ELSE "none") : kd \in Kinds8,
                  pr \in IF Tier = "quick" THEN {<<1>>, <<2>>, <<3>>, <<2, 1>>, <<1, 2, 2>>, <<1, 3, 2>>}
                                          ELSE Profiles(3, 2) \cup {<<3>>, <<1, 3, 2>>, <<1, 3, 3>>, <<3, 1, 3>>},
                  h \in {"none", "dflt"}}
               \cup {Build(kd, "res", pr, StepC07t, NoName, ExprInit, "none") : kd \in Kinds8, pr \in {<<2>>, <<3>>, <<2, 2>>}}
               \cup {Build(Kind(FALSE, t, sp), "opt", pr, StepC07o, NoName, ExprInit, "none") : t \in BOOLEAN, sp \in BOOLEAN,
                        pr \in {<<1>>, <<2>>, <<2, 1>>}}}

\* ---- C08: thread identity.  The first item of every (branch, step) is gated, so all threads of a
\* step must be alive at the same time; named and unnamed callers.
StepC08(b, k) == <<Item(IdOf(b, k, 1), "and_then", "closure", <<>>), Item(IdOf(b, k, 2), "map", "closure", <<>>)>>
FamC08(dummy) ==
  {Run([P EXCEPT !.caller = c], <<>>, ItemIds(P, {"and_then"})) :
     c \in {"named", "unnamed"},
     P \in {Build(Kind(FALSE, t, TRUE), "res", pr, StepC08, NoName, ExprInit, "none") : t \in BOOLEAN,
              pr \in IF Tier = "quick" THEN {<<1>>, <<1, 1>>, <<2, 1>>, <<1, 2, 2>>, <<3, 1, 2>>, <<2, 2, 2>>} ELSE Profiles(4, 2) \cup Profiles(3, 3)}}
  \* with a custom joiner between the threads and the step tuple: the joiner gets the handles of threads that all run already
  \cup {Run([P EXCEPT !.opts = [joiner |-> "eager", lazy |-> "default", transpose |-> "default", path |-> "default"]], <<>>, ItemIds(P, {"and_then"})) :
          P \in {Build(Kind(FALSE, t, TRUE), "res", pr, StepC08, NoName, ExprInit, "none") : t \in BOOLEAN,
                   pr \in {<<1, 1>>, <<2, 1>>, <<1, 2, 2>>}}}

\* nesting: callbacks that evaluate a thread-spawning macro themselves (1..3 levels); the nested threads' names
\* are checked by TraceExec.NestEv; the specification's own events are unaffected
ItemN(id, op, form, n) == [id |-> id, op |-> op, form |-> form, reads |-> <<>>, nest |-> n]
StepC08n(lv, b, k) == <<ItemN(IdOf(b, k, 1), "map", "closure", IF (b + k) % 2 = 0 THEN lv ELSE 0)>>
\* `ninit`: branches whose initial expression is itself a bare thread-spawning macro invocation (`join_spawn! { .. } -> f`);
\* only the generator reads the field
NestInit(P, bs) == P @@ [ninit |-> bs]
FamC08n(dummy) ==
  {Run([P EXCEPT !.caller = c], <<>>, {}) :
     c \in {"named", "unnamed"},
     P \in {LET S(b, k) == StepC08n(lv, b, k) IN Build(Kind(FALSE, t, TRUE), "res", pr, S, NoName, ExprInit, "none") :
              t \in BOOLEAN, lv \in 1 .. 3, pr \in {<<1>>, <<1, 1>>, <<2, 1>>, <<1, 2, 2>>}}
         \* `nestfn`: the nested invocation stands in one helper function that callbacks of several branches call, i.e. one
         \* call site is run by differently named threads (generator flag)
         \cup {LET S(b, k) == <<ItemN(IdOf(b, k, 1), "map", "closure", 1)>> IN Build(Kind(FALSE, t, TRUE), "res", pr, S, NoName, ExprInit, "none") @@ [nestfn |-> TRUE] :
                 t \in BOOLEAN, pr \in {<<1, 1>>, <<2, 1>>, <<1, 2, 2>>}}
         \cup {NestInit(Build(Kind(FALSE, t, TRUE), "res", pr, StepC08, NoName, ExprInit, "none"), bs) :
                 t \in BOOLEAN, pr \in {<<1>>, <<1, 1>>, <<2, 1>>, <<1, 2, 2>>}, bs \in {<<0>>, <<1>>, <<0, 1>>}}}

\* ---- C09: async laziness / independence / wake-ups / completion.  Gates on initial futures, on
\* and_then / or_else / then futures and on the handler future.
StepC09(b, k) ==
  IF (b + k) % 2 = 0 THEN <<Item(IdOf(b, k, 1), "and_then", "closure", <<>>), Item(IdOf(b, k, 2), "map", "closure", <<>>)>>
  ELSE <<Item(IdOf(b, k, 1), "then", "closure", <<>>), Item(IdOf(b, k, 2), "and_then", "closure", <<>>)>>
InC09(b) == IF b = 1 THEN "block" ELSE "expr"     \* laziness of block initial values, too
FamC09(dummy) ==
  UNION {{Run(P, <<>>, G) : G \in {ItemIds(P, {"and_then"}), InitIds(P) \cup {90}, ItemIds(P, {"then"}) \cup {IidOf(0)}}} :
         P \in {[Build(Kind(TRUE, t, sp), "res", pr, StepC09, NoName, InC09, IF t THEN "and_then" ELSE "then") EXCEPT !.hform = hf] :
                  t \in BOOLEAN, sp \in BOOLEAN, hf \in {"closure", "call"},
                  pr \in IF Tier = "quick" THEN {<<1>>, <<2>>, <<1, 1>>, <<2, 1>>, <<1, 2>>, <<2, 2>>, <<2, 1, 2>>} ELSE Profiles(2, 3) \cup {<<1, 1, 1>>, <<2, 1, 2>>, <<2, 2, 2>>, <<1, 3, 3>>}}}
  \* the second branch's initial expression awaits something itself (`f(g().await)`): the construction of the step's futures is
  \* suspended inside the macro's future; with tasks the first branch is spawned already and makes progress meanwhile
  \cup UNION {{Run(P, <<>>, G) : G \in {{IidOf(1) + 9}, {IidOf(1) + 9} \cup ItemIds(P, {"and_then"})}} :
              P \in {LET In(b) == IF b = 1 THEN "await" ELSE "expr" IN Build(Kind(TRUE, t, sp), "res", pr, StepC09, NoName, In, "none") :
                       t \in BOOLEAN, sp \in BOOLEAN, pr \in {<<1, 1>>, <<2, 1>>, <<1, 2, 1>>}}}
  \* no handler; branches that are only an initial future (depth 0), alone and next to others
  \cup UNION {{Run(P, <<>>, G) : G \in {{}, InitIds(P)}} :
              P \in {Build(Kind(TRUE, t, sp), "res", pr, StepC09, NoName, ExprInit, "none") : t \in BOOLEAN, sp \in BOOLEAN,
                       pr \in {<<0>>, <<1>>, <<0, 0>>, <<0, 1>>, <<2, 0>>}}}

\* ---- C10: every operator class, every operand form, faults and recoveries
StepC10(b, k) ==
  CASE (b + k) % 3 = 0 -> <<Item(IdOf(b, k, 1), "map", "call", <<>>), Item(IdOf(b, k, 2), "and_then", "closure", <<>>),
                            Item(IdOf(b, k, 3), "inspect", "closure", <<>>), Item(IdOf(b, k, 4), "or_else", IF k > 0 THEN "block" ELSE "call", <<>>)>>
    [] (b + k) % 3 = 1 -> <<Item(IdOf(b, k, 1), "then", IF k > 0 THEN "block" ELSE "closure", <<>>), Item(IdOf(b, k, 2), "map_err", IF k > 0 THEN "block" ELSE "closure", <<>>),
                            Item(IdOf(b, k, 3), "and_then", IF k > 0 THEN "block" ELSE "call", <<>>)>>
    [] OTHER -> <<Item(IdOf(b, k, 1), "and_then", "closure", <<>>), Item(IdOf(b, k, 2), "or", "call", <<>>),
                  Item(IdOf(b, k, 3), "dot", "closure", <<>>), Item(IdOf(b, k, 4), "inspect", IF k > 0 THEN "block" ELSE "closure", <<>>)>>
StepC10a(b, k) ==  \* async subset (no `or`, no `dot`)
  CASE (b + k) % 2 = 0 -> <<Item(IdOf(b, k, 1), "map", "call", <<>>), Item(IdOf(b, k, 2), "and_then", "closure", <<>>),
                            Item(IdOf(b, k, 3), "inspect", "closure", <<>>), Item(IdOf(b, k, 4), "or_else", IF k > 0 THEN "block" ELSE "call", <<>>)>>
    [] OTHER -> <<Item(IdOf(b, k, 1), "then", "closure", <<>>), Item(IdOf(b, k, 2), "map_err", IF k > 0 THEN "block" ELSE "closure", <<>>),
                  Item(IdOf(b, k, 3), "and_then", IF k > 0 THEN "block" ELSE "call", <<>>)>>
StepC10o(b, k) ==  \* Option carrier
  <<Item(IdOf(b, k, 1), "and_then", "closure", <<>>), Item(IdOf(b, k, 2), "filter", "closure", <<>>),
    Item(IdOf(b, k, 3), "or_else", "closure", <<>>), Item(IdOf(b, k, 4), "map", "call", <<>>), Item(IdOf(b, k, 5), "or", "call", <<>>)>>
PlansC10(P) ==
  LET fi == ItemIds(P, {"and_then", "then", "filter"}) \cup InitIds(P)
      ri == ItemIds(P, {"or_else", "then"})
      oi == ItemIds(P, {"or"})
  IN  {<<>>} \cup {<<F(x)>> : x \in fi} \cup {pl \in {<<F(x), Rcv(y)>> : x \in fi, y \in ri} : pl[1].id # pl[2].id} \cup {<<F(x), F(y)>> : x \in fi, y \in oi}
ProfC10 == IF Tier = "quick" THEN {<<1>>, <<3>>, <<2, 1>>, <<1, 2, 2>>} ELSE Profiles(3, 2) \cup {<<3, 1>>, <<1, 3, 2>>}
FamC10(dummy) ==
  UNION {{Run(P, pl, {}) : pl \in PlansC10(P)} :
         P \in {Build(kd, "res", pr, StepC10, NoName, ExprInit, DefaultHandler(kd)) : kd \in SyncKinds, pr \in ProfC10}
               \cup {Build(kd, "res", pr, StepC10a, NoName, ExprInit, DefaultHandler(kd)) : kd \in Kinds8 \ SyncKinds, pr \in ProfC10}
               \cup {Build(kd, "opt", pr, StepC10o, NoName, ExprInit, "none") : kd \in {Kind(FALSE, t, FALSE) : t \in BOOLEAN}, pr \in ProfC10}}

\* operator x operand form matrix: every operator with a call-expression and with a block operand, in all eight kinds
OpsC11 == {"map", "and_then", "or_else", "map_err", "then", "inspect"}
BlockInit(b) == "block"
StepC10m(op, form, b, k) ==
  <<Item(IdOf(b, k, 1), "and_then", "closure", <<>>), Item(IdOf(b, k, 2), op, form, <<>>), Item(IdOf(b, k, 3), "map", "closure", <<>>)>>
FamC10m(dummy) ==
  UNION {{Run(P, pl, {}) : pl \in {<<>>} \cup {<<F(x)>> : x \in ItemIds(P, {"and_then"})}} :
         P \in {LET S(b, k) == StepC10m(op, form, b, k) IN Build(kd, "res", pr, S, NoName, ExprInit, "none") :
                  kd \in Kinds8, op \in OpsC11, form \in {"call", "block"}, pr \in {<<1>>, <<2, 1>>}}
               \* three branches whose initial values are blocks too: every (branch, position) pair of captures has a mirrored one
               \cup {LET S(b, k) == StepC10m(op, "block", b, k) IN Build(kd, "res", <<1, 1, 1>>, S, NoName, BlockInit, "none") :
                       kd \in Kinds8, op \in OpsC11}
               \* two callee-first operands in one step (`-> f() ?? g() -> h()`): the later one is evaluated first
               \cup {LET S(b, k) == <<Item(IdOf(b, k, 1), "then", "call", <<>>), Item(IdOf(b, k, 2), "inspect", "call", <<>>),
                                       Item(IdOf(b, k, 3), "map", "call", <<>>), Item(IdOf(b, k, 4), "then", "call", <<>>)>>
                      IN Build(kd, "res", pr, S, NoName, ExprInit, "none") : kd \in Kinds8, pr \in {<<1>>, <<2, 1>>}}}

\* ---- C11: block operands: one operator at a time, in step k0, in several branches, initial blocks
StepC11(op, k0, b, k) ==
  IF k = k0 THEN <<Item(IdOf(b, k, 1), "and_then", "closure", <<>>), Item(IdOf(b, k, 2), op, "block", <<>>), Item(IdOf(b, k, 3), "map", "block", <<>>)>>
  ELSE <<Item(IdOf(b, k, 1), "map", IF b = 1 THEN "block" ELSE "call", <<>>)>>
ProgC11(kd, op, k0, pr) ==
  LET S(b, k) == StepC11(op, k0, b, k)  In(b) == IF b % 2 = 0 THEN "block" ELSE "expr"
  IN  Build(kd, "res", pr, S, NoName, In, "none")
FamC11(dummy) ==
  UNION {{Run(P, pl, {}) : pl \in {<<>>, <<F(IdOf(0, 0, 1))>>}} :
         P \in {ProgC11(kd, op, k0, pr) : kd \in Kinds8, op \in OpsC11, k0 \in 0 .. 2,
                  pr \in IF Tier = "quick" THEN {<<3>>, <<3, 3>>, <<2, 3, 3>>} ELSE {<<3>>, <<3, 3>>, <<2, 3, 3>>, <<3, 1, 3>>, <<3, 3, 3>>}}}
  \* the same captures when the branches of a step are handed to a custom joiner, eagerly or as closures (`lazy_branches(true)`):
  \* a capture belongs to the step, not to the branch closure, so it is evaluated before the joiner is called
  \cup UNION {{Run([P EXCEPT !.opts = o], pl, {}) : pl \in {<<>>, <<F(IdOf(0, 0, 1))>>},
                   o \in {[joiner |-> "eager", lazy |-> "default", transpose |-> "default", path |-> "default"],
                          [joiner |-> "lazy", lazy |-> "true", transpose |-> "default", path |-> "default"]}} :
              P \in {ProgC11(kd, op, k0, pr) : kd \in {q \in Kinds8 : ~q.spawn}, op \in {"map", "or_else", "then"}, k0 \in 0 .. 1,
                       pr \in {<<2, 2>>, <<2, 3, 3>>}}}

\* ---- C12: let names.  Every capture of a step >= 1 reads every named branch.
ProgC12(kd, pr, named, mut) ==
  LET rd == SetToSeq({b \in 0 .. (Len(pr) - 1) : b \in named})
      S(b, k) == IF k = 0 THEN <<Item(IdOf(b, 0, 1), "and_then", "closure", <<>>)>>
                 ELSE <<Item(IdOf(b, k, 1), "and_then", "block", rd), Item(IdOf(b, k, 2), "or_else", "closure", <<>>)>>
      Nm(b) == IF b \in named THEN (IF mut THEN "letmut" ELSE "let") ELSE "none"
  IN  Build(kd, "res", pr, S, Nm, ExprInit, "none")
\* `fwd`: the macro is reached through a `macro_rules!` forwarder (`($($t:tt)*) => { join! { $($t)* } }`), as a user who presets
\* options would write it: names and the captures that read them keep the caller's hygiene context (generator flag only)
FamC12(dummy) ==
  UNION {{Run(Q, pl, {}) : pl \in {<<>>} \cup (IF P.kind.try THEN {} ELSE {<<F(IdOf(0, 0, 1))>>, <<F(IdOf(1, 0, 1))>>}),
                           Q \in {P, P @@ [fwd |-> TRUE]}} :
         P \in {ProgC12(kd, pr, named, mut) : kd \in Kinds8, mut \in BOOLEAN,
                  pr \in IF Tier = "quick" THEN {<<3>>, <<2, 2>>, <<1, 3>>, <<2, 1, 3>>, <<3, 3, 1>>} ELSE {q \in Profiles(3, 3) : \E i \in 1 .. Len(q) : q[i] > 1},
                  named \in (SUBSET {0, 1, 2})}}

\* ---- C13: handlers: kind x handler x outcome x position x form; async handler futures gated
ProgC13(kd, n, h, pos, form) ==
  LET S(b, k) == <<Item(IdOf(b, k, 1), "and_then", "closure", <<>>)>>
      P == Build(kd, "res", [i \in 1 .. n |-> IF i = 2 THEN 2 ELSE 1], S, NoName, ExprInit, h)
  IN  [P EXCEPT !.hpos = pos, !.hform = form]
ProgC13nc(kd, n, h, pos) ==
  LET S(b, k) == <<Item(IdOf(b, k, 1), "and_then", "block", <<>>)>>
      P == Build(kd, "res", [i \in 1 .. n |-> IF i = 2 THEN 2 ELSE 1], S, NoName, ExprInit, h)
  IN  [P EXCEPT !.hpos = pos] @@ [hnocomma |-> TRUE]
FamC13(dummy) ==
  UNION {{Run(P, pl, G) :
            pl \in {<<>>, <<[t |-> "hc", id |-> 0, a |-> "fail"]>>} \cup {<<F(x)>> : x \in ItemIds(P, {"and_then"})},
            G \in IF P.kind.async /\ P.handler \in {"then", "and_then"} THEN {{}, {90}} ELSE {{}}} :
         P \in {q \in {ProgC13(kd, n, h, pos, form) : kd \in Kinds8, n \in 1 .. (IF Tier = "quick" THEN 3 ELSE 4),
                               h \in {"map", "and_then", "then"}, pos \in 0 .. 4, form \in {"closure", "call"}} :
                   /\ (q.kind.try => q.handler # "then") /\ (~q.kind.try => q.handler = "then") /\ q.hpos <= NB(q)}
               \* a branch that ends in a block may be followed by the handler without a comma (`hnocomma`: read by the generator only)
               \cup {q \in {ProgC13nc(kd, n, h, pos) : kd \in Kinds8, n \in 1 .. 3, h \in {"map", "and_then", "then"}, pos \in 1 .. 3} :
                       /\ (q.kind.try => q.handler # "then") /\ (~q.kind.try => q.handler = "then") /\ q.hpos <= NB(q)}}

\* ---- C16: options: custom joiner (eager / lazy), lazy_branches, crate path, on programs whose
\* active-branch count changes between steps
StepC16(b, k) == <<Item(IdOf(b, k, 1), "and_then", IF k = 1 THEN "block" ELSE "call", <<>>)>>
OptsC16(kd) ==
  {[joiner |-> j, lazy |-> l, transpose |-> "default", path |-> p] :
     j \in {"none", "eager", "lazy"}, l \in {"default", "true", "false"}, p \in {"default", "custom"}}
  \cup {[joiner |-> "try", lazy |-> "default", transpose |-> "false", path |-> "default"],      \* sync: transposing joiner
        [joiner |-> "eager", lazy |-> "default", transpose |-> "false", path |-> "default"],    \* async: try_join! as joiner
        [joiner |-> "eager", lazy |-> "default", transpose |-> "false", path |-> "custom"]}
OkOpts(kd, o) ==
  /\ (o.transpose = "false" => kd.try /\ ~(kd.spawn /\ ~kd.async))
  /\ (o.joiner = "try" <=> (o.transpose = "false" /\ ~kd.async))
  /\ (o.path = "custom" => kd.async)
  /\ (o.joiner = "lazy" <=> (o.lazy = "true" /\ ~(kd.spawn /\ ~kd.async)))   \* a lazy joiner calls closures
  /\ (kd.spawn /\ ~kd.async => o.lazy # "false")                             \* thread::spawn needs a closure
  /\ (o.lazy = "true" /\ o.joiner = "none" => (kd.spawn /\ ~kd.async))       \* closures need somebody to call them
  /\ (kd.spawn /\ ~kd.async => o.joiner # "lazy")
  /\ (kd.spawn /\ kd.async => o.lazy # "true")                              \* tokio::spawn needs a future
\* lazy_branches(false) with threads: every step has at least two active branches and ends in the job its thread runs
StepC16j(b, k) == <<Item(IdOf(b, k, 1), "and_then", IF k = 1 THEN "block" ELSE "call", <<>>), Item(IdOf(b, k, 2), "job", "closure", <<>>)>>
FamC16j(dummy) ==
  UNION {{Run([P EXCEPT !.opts = [joiner |-> "none", lazy |-> "false", transpose |-> "default", path |-> "default"]], pl, {}) :
            pl \in {<<>>} \cup {<<F(x)>> : x \in ItemIds(P, {"and_then"})}} :
         P \in {Build(Kind(FALSE, t, TRUE), "res", pr, StepC16j, NoName, ExprInit, IF h = "dflt" THEN DefaultHandler(Kind(FALSE, t, TRUE)) ELSE "none") :
                  t \in BOOLEAN, h \in {"none", "dflt"},
                  pr \in {<<1, 1>>, <<2, 2>>, <<2, 2, 1>>, <<1, 2, 2>>}}}
\* a generic function as (lazy) joiner: each joined step must infer the function's type parameters for itself
\* (`jfn`: generator flag; every multi-branch step of these programs has the same number of active branches)
FamC16f(dummy) ==
  UNION {{Run([P EXCEPT !.opts = [joiner |-> "lazy", lazy |-> "true", transpose |-> "default", path |-> "default"]] @@ [jfn |-> TRUE], pl, {}) :
            pl \in {<<>>} \cup {<<F(x)>> : x \in ItemIds(P, {"and_then"})}} :
         P \in {Build(Kind(FALSE, t, FALSE), "res", pr, StepC16, NoName, ExprInit, h) : t \in BOOLEAN, h \in {"none"},
                  pr \in {<<1, 1>>, <<2, 2>>, <<3, 3>>, <<2, 2, 2>>}}}
\* closure-valued branches: the initial expression is a closure literal, a later step calls it.  Handing a branch over
\* lazily (threads, `lazy_branches(true)`) wraps the branch EXPRESSION, whatever it is, and never runs the user's closure
ThunkProg(kd, pr, o) ==
  [Prog(kd, "res",
        [i \in 1 .. Len(pr) |->
           IF pr[i] = 1
           THEN Branch(i - 1, "none", "thunk", << <<>>, <<Item(IdOf(i - 1, 1, 1), "force", "closure", <<>>), Item(IdOf(i - 1, 1, 2), "map", "closure", <<>>)>> >>)
           ELSE Branch(i - 1, "none", "expr", << <<Item(IdOf(i - 1, 0, 1), "map", "closure", <<>>)>>, <<Item(IdOf(i - 1, 1, 1), "map", "closure", <<>>)>> >>)],
        "none") EXCEPT !.opts = o]
FamC16t(dummy) ==
  UNION {{Run(ThunkProg(Kind(FALSE, FALSE, sp), pr, o), <<>>, {}) :
            pr \in {<<1>>, <<1, 0>>, <<0, 1>>, <<1, 1>>, <<1, 0, 1>>},
            o \in {q \in {[joiner |-> j, lazy |-> l, transpose |-> "default", path |-> "default"] : j \in {"none", "eager", "lazy"}, l \in {"default", "true"}} :
                     OkOpts(Kind(FALSE, FALSE, sp), q)}} : sp \in BOOLEAN}
FamC16(dummy) ==
  FamC16j(0) \cup FamC16f(0) \cup FamC16t(0) \cup
  UNION {{Run([P EXCEPT !.opts = o], pl, {}) : pl \in {<<>>} \cup {<<F(x)>> : x \in ItemIds(P, {"and_then"})},
                                                o \in {q \in OptsC16(P.kind) : OkOpts(P.kind, q)}} :
         P \in {Build(kd, "res", pr, StepC16, NoName, ExprInit, "none") : kd \in Kinds8,
                  pr \in IF Tier = "quick" THEN {<<1>>, <<2>>, <<2, 2>>, <<3, 1, 2>>} ELSE {<<1>>, <<2>>, <<3>>, <<2, 2>>, <<3, 1, 2>>, <<1, 3, 2>>, <<2, 3, 3>>}}}

\* ---- C18: a panic at every single position of a mixed corpus
StepC18(b, k) ==
  IF k = 0 THEN <<Item(IdOf(b, 0, 1), "and_then", "call", <<>>)>>
  ELSE <<Item(IdOf(b, k, 1), "and_then", "block", <<>>), Item(IdOf(b, k, 2), "map", "closure", <<>>)>>
Pn(t, id) == [t |-> t, id |-> id, a |-> "panic"]
PanicPlans(P) ==
  {<<Pn("f", x)>> : x \in AllItemIds(P)} \cup {<<Pn("i", x)>> : x \in InitIds(P)}
  \cup {<<Pn("o", x)>> : x \in ItemIds(P, {"and_then"}) \cap {IdOf(b, 0, 1) : b \in BrSet(P)}}
  \cup {<<Pn("c", x)>> : x \in {IdOf(b, k, 1) : b \in BrSet(P), k \in 1 .. 3} \cap AllItemIds(P)}
  \cup {<<Pn("hx", 0)>>, <<Pn("hc", 0)>>}
  \cup (IF P.kind.async THEN {<<Pn("hf", 0)>>} ELSE {})
  \* sync try macros: one branch fails, another one panics (the failure must not hide the panic of a branch that did run;
  \* the async try macros return at the first failure they see and abandon the other branches, so nothing is pinned there)
  \cup (IF P.kind.try /\ ~P.kind.async THEN {pl \in {<<F(x), Pn("f", y)>> : x \in ItemIds(P, {"and_then"}), y \in ItemIds(P, {"and_then"})} : pl[1].id # pl[2].id} ELSE {})
JoinerOpts == [joiner |-> "eager", lazy |-> "default", transpose |-> "default", path |-> "default"]
FamC18(dummy) ==
  \* thread-spawning macros: free-running behind gates; async macros with two branches: the first callback's future of every
  \* branch is gated and the readiness orders are enumerated, so a panic is raised while a sibling is still pending
  UNION {{Run(P, pl, IF (P.kind.spawn /\ ~P.kind.async) \/ (P.kind.async /\ NB(P) = 2)
                     THEN {IdOf(b, 0, 1) : b \in BrSet(P)} \cup {P.branches[b + 1].iid + 9 : b \in {c \in BrSet(P) : P.branches[c + 1].init = "await"}}
                     ELSE {}) : pl \in PanicPlans(P)} :
         P \in {[Build(kd, "res", pr, StepC18, NoName, ExprInit, IF kd.try THEN "and_then" ELSE "then") EXCEPT !.hform = "call"] :
                  kd \in Kinds8, pr \in IF Tier = "quick" THEN {<<2>>, <<1, 2>>, <<2, 1, 2>>} ELSE Profiles(3, 2) \cup {<<3, 1, 2>>}}
               \* a task panics while the construction of the step is suspended by the second branch's awaiting initial expression
               \cup {LET In(b) == IF b = 1 THEN "await" ELSE "expr" IN Build(Kind(TRUE, t, TRUE), "res", pr, StepC18, NoName, In, "none") :
                        t \in BOOLEAN, pr \in {<<1, 1>>, <<2, 1>>}}
               \* the same with a custom joiner between the branches and the macro
               \cup {[Build(kd, "res", pr, StepC18, NoName, ExprInit, "none") EXCEPT !.opts = JoinerOpts] :
                        kd \in Kinds8, pr \in IF Tier = "quick" THEN {<<1, 2>>, <<2, 2>>} ELSE {<<1, 2>>, <<2, 2>>, <<2, 1, 2>>}}}

\* ---- C17: two-digit branch / step / position indices; block operands at every position
IdBig(b, k, j) == 10000 * (b + 1) + 100 * k + j
BranchBig(b, steps) == [name |-> IF b % 5 = 0 THEN "let" ELSE "none", init |-> IF b % 3 = 0 THEN "block" ELSE "expr",
                        iid |-> 10000 * (b + 1), steps |-> steps]
ProgBig(kind, nb, depth, per, h) ==
  Prog(kind, "res",
       [i \in 1 .. nb |->
          BranchBig(i - 1, [k \in 1 .. depth |->
                              \* all operator classes take their turn (the error-side operators go through their own generator arm)
                              [j \in 1 .. per |-> Item(IdBig(i - 1, k - 1, j),
                                                       CASE j % 6 = 0 -> "and_then" [] j % 6 = 1 -> "map" [] j % 6 = 2 -> "or_else"
                                                         [] j % 6 = 3 -> "map_err" [] j % 6 = 4 -> "and_then" [] OTHER -> "inspect",
                                                       IF j % 4 = 0 THEN "call" ELSE "block", <<>>)]])], h)
FamC17(dummy) ==
  {Run(P, <<>>, {}) :
     P \in {ProgBig(kd, sh[1], sh[2], sh[3], IF sh[1] < 13 THEN DefaultHandler(kd) ELSE "none") :
              kd \in {Kind(FALSE, FALSE, FALSE), Kind(FALSE, TRUE, FALSE), Kind(TRUE, TRUE, FALSE)} \cup
                     (IF Tier = "quick" THEN {} ELSE {Kind(TRUE, FALSE, FALSE)}),
              sh \in {<<24, 1, 1>>, <<1, 1, 24>>, <<12, 1, 12>>, <<1, 12, 2>>, <<3, 11, 1>>}}}
  \cup {Run(ProgBig(Kind(FALSE, t, TRUE), 12, 2, 2, "none"), <<>>, {}) : t \in BOOLEAN}

\* async try macros: which failing branch completes first depends on the readiness order
FamC05a(dummy) ==
  UNION {{Run(P, pl, ItemIds(P, {"and_then"})) : pl \in FailPlans(ItemIds(P, {"and_then"}), 2)} :
         P \in {ProgC05(Kind(TRUE, TRUE, sp), pr, 0, h, "res") : sp \in BOOLEAN, h \in {"none", "map"},
                  pr \in IF Tier = "quick" THEN {<<2>>, <<1, 1>>, <<2, 2>>, <<1, 2, 1>>} ELSE {<<2>>, <<3>>, <<1, 1>>, <<2, 2>>, <<1, 2, 1>>, <<2, 2, 2>>, <<1, 3, 2>>}}}

Runs(dummy) ==
  TLCEval(CASE Family = "C04" -> FamC04(0)
            [] Family = "C05" -> FamC05(0)
            [] Family = "C05a" -> FamC05a(0)
            [] Family = "C03s" -> FamC03s(0)
            [] Family = "C03a" -> FamC03a(0) \cup FamC03w(0)
            [] Family = "C03h" -> FamC03h(0)
            [] Family = "C03v" -> FamC03v(0)
            [] Family = "C06" -> FamC06(0)
            [] Family = "C06h" -> FamC06h(0)
            \* + readiness orders of failing branches in the task-spawning async try macro, under both of its names
            [] Family = "C07" -> FamC07(0) \cup {[r EXCEPT !.prog.caller = "unnamed"] : r \in {q \in FamC07(0) : q.prog.kind.spawn /\ ~q.prog.kind.async /\ q.plan = <<>>}} \cup {[r EXCEPT !.prog.macro = m] : m \in MacroNames(Kind(TRUE, TRUE, TRUE)),
                                                   r \in {q \in FamC05a(0) : q.prog.kind.spawn /\ q.prog.handler = "none" /\ NB(q.prog) = 2}}
                                 \* + the same branches behind a custom joiner, under every name of every kind
                                 \cup UNION {{[r EXCEPT !.prog.macro = m] : m \in MacroNames(r.prog.kind)} :
                                             r \in {q \in FamC16(0) : q.prog.opts.joiner = "eager" /\ q.prog.opts.path = "default" /\ q.prog.opts.transpose = "default"
                                                                       /\ q.prog.opts.lazy = "default" /\ q.plan = <<>> /\ NB(q.prog) >= 2 /\ "jfn" \notin DOMAIN q.prog}}
            [] Family = "C07x" -> {[r EXCEPT !.prog.macro = AliasOf(r.prog.kind)] :
                                     r \in {q \in FamC04(0) \cup FamC10(0) \cup FamC13(0) \cup FamC16(0) : q.prog.kind.spawn}}
            [] Family = "C08" -> FamC08(0)
            [] Family = "C08n" -> FamC08n(0)
            [] Family = "C09" -> FamC09(0)
            [] Family = "C10" -> FamC10(0) \cup FamC10m(0)
            [] Family = "C11" -> FamC11(0)
            [] Family = "C12" -> FamC12(0)
            [] Family = "C13" -> FamC13(0)
            [] Family = "C16" -> FamC16(0)
            [] Family = "C18" -> FamC18(0)
            [] Family = "C17" -> FamC17(0)
            [] Family = "C13l" -> {r \in FamC13(0) : r.prog.kind.async /\ r.gates # {}}
            [] Family = "C19" -> {r \in FamC04(0) \cup FamC10(0) \cup FamC11(0) \cup FamC12(0) \cup FamC13(0) :
                                    ~r.prog.kind.spawn /\ ~r.prog.kind.async}
            [] Family = "C11h" -> {r \in FamC11(0) : NB(r.prog) <= 2 /\ ~r.prog.kind.spawn}
            [] Family = "C13h" -> {r \in FamC13(0) : NB(r.prog) <= 2 /\ ~r.prog.kind.spawn}
            [] Family = "C10h" -> {r \in FamC10(0) : NB(r.prog) <= 2 /\ ~r.prog.kind.spawn})

---------------------------------------------------------------------------
\* the machine

\* The run is picked by the first step (cheaper for TLC than thousands of initial states).
Init ==
  /\ s = [ph |-> "pick"]
  /\ sched = <<>>
  /\ hist = <<>>
  /\ nsteps = 0

Pick ==
  /\ s.ph = "pick"
  /\ \E r \in Runs(0) : s' = InitState(r.prog, r.plan, r.gates)
  /\ UNCHANGED <<sched, hist, nsteps>>

ArrivedSet(st) ==
  {IdAt(st, b) : b \in {c \in Active(st.prog, st.k) \ st.ended : st.pc[c].ph \in {"w", "x"} /\ st.arrived[c] /\ c # st.pb}}
  \cup (IF st.ph = "hawait" /\ st.hparked THEN {st.prog.hid} ELSE {})
  \cup (IF st.ph = "step" /\ st.consq # <<>> /\ st.cparked THEN {Head(st.consq).id} ELSE {})

QuiescentNow == BranchEvents(s) = {} /\ StepEvents(s) = {} /\ HandlerEvents(s) = {}

SE(a, ids, arr, done, hold) == [a |-> a, ids |-> ids, arrived |-> arr, done |-> done, hold |-> hold]
Spurious(q) == Cardinality({i \in 1 .. Len(q) : q[i].a = "poll" /\ q[i].hold})

\* Sound for every property stated here: drops commute with everything, and the branches of a
\* sequential macro (or of one poll of a plain async macro) do not interleave in reality.
Reduced(e) ==
  LET P == s.prog IN
  \* the handler expression is evaluated first by the code; no property pins that, so the trace
  \* specification leaves it free, but emitted schedules must be realisable
  /\ (\E h \in HandlerEvents(s) : h.ev = "hexpr") => e.ev = "hexpr"
  /\ (s.garbage # {} /\ ~s.dropsFree) => (e.ev = "drop" /\ \A v \in s.garbage : <<e.v.b, e.v.n>> = <<v.b, v.n>> \/ e.v.b < v.b \/ (e.v.b = v.b /\ e.v.n <= v.n))
  /\ (e.b >= 0 /\ e.ev \in {"init", "opnd", "enter", "arrive", "exit", "panic"}
      /\ (~IsSpawn(P) \/ Cardinality(Active(P, s.k)) < 2 \/ NB(P) > 4))   \* many independent threads: one representative order
     => \A c \in BrSet(P) : (c < e.b /\ MayRun(s, c)) => BranchEvent(s, c) = {}

Step ==
  \E e \in NextEvents(s) :
     /\ Reduce => Reduced(e)
     /\ (e.ev = "poll" /\ Quiescent) =>
           /\ (~s.polled \/ s.woken \/ s.sinceWake \/ Spurious(sched) < MaxSpurious)
           /\ (IsTasks(s.prog) => BranchEvents(s) = {})     \* the harness lets tasks run to quiescence first
     /\ s' = Apply(s, e)
     /\ hist' = IF TrackHist THEN Append(hist, [ev |-> e.ev, id |-> e.id, b |-> e.b, k |-> s.k]) ELSE hist
     /\ sched' = IF e.ev = "pollend" /\ Emit
                 THEN Append(sched, SE("poll", <<>>, SetToSeq(ArrivedSet(s')), e.id = 1, s.spur))
                 ELSE sched

\* environment of the thread-spawning macros: release one gate
Release ==
  /\ ~IsAsync(s.prog)
  /\ \E g \in s.gates \ s.released :
        /\ Quiescent => (QuiescentNow /\ g \in ArrivedSet(s))
        /\ s' = ApplyRelease(s, {g})
        /\ sched' = IF ~Emit THEN sched ELSE Append(sched, SE("rel", <<g>>, SetToSeq(ArrivedSet(s)), FALSE,
                                     ArrivedSet(s) = {g} /\ \A b \in Active(s.prog, s.k) \ s.ended :
                                                               s.pc[b].ph = "x" /\ IdAt(s, b) = g))
        /\ hist' = IF TrackHist THEN Append(hist, [ev |-> "release", id |-> g, b |-> -1, k |-> s.k]) ELSE hist

\* environment of the async macros: a batch of gates becomes ready (between polls)
Ready ==
  /\ IsAsync(s.prog) /\ ~s.inpoll /\ s.ph \notin {"new", "created0", "ended", "closed"} /\ ~s.polldone
  /\ \E G \in (SUBSET (s.gates \ s.released)) \ {{}} :
        /\ Quiescent => (G \subseteq ArrivedSet(s) /\ BranchEvents(s) = {} /\ ((Tier = "quick" \/ NB(s.prog) > 2) => ~s.woken))
        /\ s' = ApplyRelease(s, G)
        /\ sched' = IF ~Emit THEN sched ELSE Append(sched, SE("ready", SetToSeq(G), <<>>, FALSE, FALSE))
        /\ hist' = hist

\* Completion (C09, C18) without fairness machinery: in the quiescent-point environment every step is
\* counted; if the counter stays below a bound on every path there is no cycle, and if the only states
\* without a successor are terminal ones (TLC's deadlock check, Done states stutter explicitly) then every
\* maximal path ends with the evaluation completed.
Finish == Live /\ Done(s) /\ UNCHANGED mvars
Next == IF s.ph = "pick" THEN Pick
        ELSE ((Step \/ Release \/ Ready) /\ nsteps' = IF Live THEN nsteps + 1 ELSE nsteps) \/ Finish
Bounded == nsteps < 400

Spec == Init /\ [][Next]_mvars

---------------------------------------------------------------------------
\* schedule-free reference: what the property says the result is.
\* RefVal(b, st) is branch b's value after step st, evaluated alone.

RECURSIVE RunItems(_, _, _, _, _, _)
RunItems(P, PL, b, its, i, v) ==
  IF i > Len(its) THEN v
  ELSE LET it == its[i]
           nv == IF it.op = "force" THEN InitV(P, PL, b)
                 ELSE IF it.op = "or" THEN (IF v.ok THEN v ELSE AltV(P, PL, b, it.id))
                 ELSE IF Invoked(P, it.op, v) THEN After(P, it.op, ActOf(PL, "f", it.id), v, it.id, b)
                 ELSE v
       IN  RunItems(P, PL, b, its, i + 1, nv)

RECURSIVE RefVal(_, _, _, _)
RefVal(P, PL, b, st) ==   \* st >= 0, st < Depth(b)
  LET v0 == IF st = 0 THEN InitV(P, PL, b) ELSE RefVal(P, PL, b, st - 1)
  IN  RunItems(P, PL, b, Items(P, b, st), 1, v0)

FinalRef(P, PL, b) == RefVal(P, PL, b, Depth(P, b) - 1)
\* value of b once step st is over (its last own step if it finished earlier)
RefAt(P, PL, b, st) == RefVal(P, PL, b, IF st < Depth(P, b) THEN st ELSE Depth(P, b) - 1)
FailSteps(P, PL) == {st \in 0 .. (MaxDepth(P) - 1) : \E b \in Active(P, st) : ~RefVal(P, PL, b, st).ok}

NoPanic(PL) == \A i \in 1 .. Len(PL) : PL[i].a # "panic"

---------------------------------------------------------------------------
\* properties (A)

TypeOK == s.ph \in {"pick", "new", "created0", "idle", "step", "hwait", "hawait", "fin", "afail", "ended", "closed"}

\* C04: position i holds branch i's final value; finished branches keep theirs
Routing ==
  (Done(s) /\ ~s.panicked /\ s.prog.handler = "none" /\ s.res.t \in {"ok", "tuple"}) =>
     /\ Len(s.res.vals) = NB(s.prog)
     /\ \A b \in BrSet(s.prog) : s.res.vals[b + 1] = FinalRef(s.prog, s.plan, b)
HandlerArgs ==
  (s.ph = "hwait") => \A b \in BrSet(s.prog) : s.res.vals[b + 1] = FinalRef(s.prog, s.plan, b)

\* C05: Ok(tuple) iff no branch ends a step failing; otherwise the failure of the earliest
\* failing step, of the lowest failing branch for sync/spawn, of some failing branch for async.
TryResult ==
  (Done(s) /\ IsTry(s.prog) /\ NoPanic(s.plan)) =>
     LET P == s.prog  PL == s.plan  FS == FailSteps(P, PL) IN
     IF FS = {} THEN s.res.t = "ok" \/ (P.handler = "and_then" /\ s.res.t = "err" /\ s.res.vals[1].b = 100)
     ELSE LET K == Min(FS)
              fb == {b \in Active(P, K) : ~RefVal(P, PL, b, K).ok}
          IN  /\ s.res.t = "err"
              /\ IF IsAsync(P) THEN \E b \in fb : s.res = ResErr(P, RefVal(P, PL, b, K))
                 ELSE s.res = ResErr(P, RefVal(P, PL, Min(fb), K))

\* C07: the result does not depend on the spawn bit nor on the schedule (sync/spawn: a function of (program, plan))
Determinate ==
  (Done(s) /\ NoPanic(s.plan) /\ ~IsAsync(s.prog) /\ ~IsTry(s.prog) /\ s.prog.handler = "none") =>
     \A b \in BrSet(s.prog) : s.res.vals[b + 1] = FinalRef(s.prog, s.plan, b)

\* C06: after an abort nothing of a later step and no map/and_then handler ran
AbortNothingLater ==
  (TrackHist /\ s.ph # "pick" /\ IsTry(s.prog) /\ NoPanic(s.plan) /\ FailSteps(s.prog, s.plan) # {}) =>
     LET K == Min(FailSteps(s.prog, s.plan)) IN
     \A i \in 1 .. Len(hist) : hist[i].ev \in {"init", "opnd", "cap", "enter", "exit", "hcall", "joiner"} =>
         (hist[i].k <= K /\ hist[i].ev # "hcall")

\* C03: no event of step k+1 before every branch active in step k has finished step k
BarrierInv ==
  TrackHist =>
    \A i, j \in 1 .. Len(hist) :
       (i < j /\ hist[i].ev \in {"init", "opnd", "cap", "enter"} /\ hist[j].ev \in {"exit", "enter", "init", "opnd"}
        /\ hist[j].b >= 0) => hist[i].k <= hist[j].k

\* C11: the captures of a step come before every other expression of that step
CapturesFirst ==
  TrackHist =>
    \A i, j \in 1 .. Len(hist) :
       (i < j /\ hist[j].ev = "cap" /\ hist[i].ev \in {"init", "opnd", "enter", "exit"}) => hist[i].k < hist[j].k

\* C12: a capture of step k sees, under each name, that branch's value after step min(k, depth) - 1
NamesLatest ==
  (s.ph = "step" /\ s.capq # <<>> /\ s.k > 0 /\ NoPanic(s.plan)) =>
     \A i \in 1 .. Len(Head(s.capq).reads) :
        LET b == Head(s.capq).reads[i] IN s.names[b] = RefAt(s.prog, s.plan, b, s.k - 1)

\* C13: the handler is called at most once, and exactly when the macro kind says so
HandlerOnce ==
  (TrackHist /\ s.ph # "pick") =>
     LET calls == Cardinality({i \in 1 .. Len(hist) : hist[i].ev = "hcall"}) IN
     /\ calls <= 1
     /\ (Done(s) /\ NoPanic(s.plan) /\ s.prog.handler # "none") =>
           calls = (IF IsTry(s.prog) /\ FailSteps(s.prog, s.plan) # {} THEN 0 ELSE 1)

\* C10: every callback the value semantics reach ran exactly once, nothing else ran
ExactlyOnce ==
  (TrackHist /\ s.ph # "pick" /\ Done(s) /\ NoPanic(s.plan) /\ ~IsAsync(s.prog)) =>
     \A i, j \in 1 .. Len(hist) :
        (i # j /\ hist[i].ev = hist[j].ev /\ hist[i].ev \in {"init", "opnd", "cap", "enter", "exit"}) => hist[i].id # hist[j].id

\* C18: a panic reaches the caller
PanicSurfaces == (Done(s) /\ s.panicked) => s.res.t = "panicked"

\* C09 / C18: the evaluation always completes (checked under fairness in quiescent mode)
FairSpec == Init /\ [][Next]_mvars /\ WF_mvars(Next)
Completes == <>(s.ph \in {"closed", "ended"})

\* everything that was dropped or returned; nothing is left over
NoLeak == (Done(s) /\ ~s.dropsFree) => s.garbage = {}

\* vacuity guards / emission
EmitRun ==
  (Emit /\ Done(s) /\ (s.ph = "closed" \/ ~IsAsync(s.prog))) =>
     PrintT(<<"RUN", ToJson([prog |-> s.prog, plan |-> s.plan, gates |-> SetToSeq(s.gates), sched |-> sched, res |-> s.res])>>)

View == <<s, sched>>
=============================================================================
