----------------------------- MODULE TraceExec -----------------------------
(***************************************************************************)
(* Trace specification: every execution recorded from the real macros by   *)
(* harness/rt must be a behaviour of JoinExec.  One trace line = one step.  *)
(* A file holds many runs, separated by `reset` lines that carry the       *)
(* program, the fault plan and the gated ids.                              *)
(***************************************************************************)
EXTENDS JoinExec, Json, IOUtils, TLCExt

Rec == ndJsonDeserialize(IOEnv.TRACE)

VARIABLES s, l, caller, thr
tvars == <<s, l, caller, thr>>

SeqToSet(q) == {q[i] : i \in 1 .. Len(q)}

Dummy == [ph |-> "closed"]

TraceInit ==
  /\ l = 1
  /\ s = Dummy
  /\ caller = [name |-> "", tid |-> 0, heap |-> 0, count |-> FALSE]
  /\ thr = {}

ThreadName(b) ==
  IF caller.name = "" THEN "join_" \o ToString(b) ELSE caller.name \o "_join_" \o ToString(b)

IsBranchEv(e) == e.b >= 0 /\ e.ev \in {"init", "opnd", "enter", "arrive", "exit", "panic"}
IsCallerEv(e) == (e.b = -1 /\ e.ev \in {"joiner", "hexpr", "hcall", "end", "panic", "begin"})
                 \/ e.ev = "cap"

\* with lazy_branches(false) only the job (the closure the branch expression evaluates to) runs on the branch's thread
IsJobEv(e) == e.ev \in {"enter", "exit", "panic"} /\ e.id \in JobIds(s.prog)

\* C08: thread identity of sync events.  Returns the new `thr` or {"bad"} sentinel via ThreadOK.
ThreadOK(e, r) ==
  LET P == s.prog IN
  IF IsAsync(P) \/ e.ev = "begin" THEN TRUE
  ELSE IF IsBranchEv(e) /\ IsSpawn(P) /\ Cardinality(Active(P, s.k)) > 1 /\ (EagerSpawn(P) => IsJobEv(e))
  THEN /\ r.thr = ThreadName(e.b)
       /\ r.tid # caller.tid
       /\ LET mine == {t \in thr : t.k = s.k /\ t.b = e.b} IN
          IF mine = {} THEN r.tid \notin {t.tid : t \in {u \in thr : u.k = s.k}}
          ELSE \A t \in mine : t.tid = r.tid
  ELSE IF IsBranchEv(e) \/ IsCallerEv(e) THEN r.tid = caller.tid
  ELSE TRUE

ThrNext(e, r) ==
  IF ~IsAsync(s.prog) /\ IsBranchEv(e) /\ IsSpawn(s.prog) /\ Cardinality(Active(s.prog, s.k)) > 1 /\ (EagerSpawn(s.prog) => IsJobEv(e))
  THEN thr \cup {[k |-> s.k, b |-> e.b, tid |-> r.tid]}
  ELSE thr

\* C19: a sequential macro performs no heap allocation of its own.  `heap` is the value of a counting
\* allocator that counts only outside the runtime's own bookkeeping; the generated user code never allocates.
NoAlloc(e, r) ==
  (caller.count /\ ~IsAsync(s.prog) /\ ~IsSpawn(s.prog) /\ e.ev # "begin") => r.heap = caller.heap

Matches(e, r) ==
  /\ r.ev = e.ev
  /\ CASE e.ev = "init"   -> r.id = e.id /\ r.b = e.b
       [] e.ev = "opnd"   -> r.id = e.id
       [] e.ev = "cap"    -> r.id = e.id /\ r.reads = e.vs
       [] e.ev = "enter"  -> r.id = e.id /\ r.arg = e.v
       [] e.ev = "exit"   -> r.id = e.id /\ r.ret = e.v
       [] e.ev = "arrive" -> r.id = e.id
       [] e.ev = "joiner" -> r.n = e.id
       [] e.ev = "fxjoin" -> r.n = e.id
       [] e.ev = "hcall"  -> r.args = e.vs
       [] e.ev = "drop"   -> r.v = e.v
       [] e.ev = "pollend" -> r.done = (e.id = 1)
       [] e.ev = "end"    -> r.res = e.res
       [] OTHER -> TRUE

Reset(r) ==
  /\ r.ev = "reset"
  /\ s.ph = "closed" \/ (s.ph = "ended" /\ (s.dropsFree \/ s.garbage = {}))
  /\ s' = InitState(r.prog, r.plan, SeqToSet(r.gates))
  /\ caller' = [name |-> "", tid |-> 0, heap |-> 0, count |-> r.count]
  /\ thr' = {}

SpecEvent(r) ==
  /\ r.ev \notin {"reset", "release", "ready", "quiet", "eof", "nest"}
  /\ "prog" \in DOMAIN s
  /\ \/ \E e \in NextEvents(s) :
          /\ Matches(e, r)
          /\ ThreadOK(e, r)
          /\ s' = Apply(s, e)
          /\ thr' = ThrNext(e, r)
          /\ NoAlloc(e, r)
          /\ caller' = IF e.ev = "begin" THEN [caller EXCEPT !.name = r.thr, !.tid = r.tid, !.heap = r.heap] ELSE caller
     \/ \* once drop accounting is off (panic / abandoned futures) any drop is accepted
        /\ r.ev = "drop" /\ DropsFree(s) /\ r.v \notin s.garbage
        /\ UNCHANGED <<s, thr, caller>>

Release(r) ==
  /\ r.ev = "release"
  /\ "prog" \in DOMAIN s
  /\ r.id \in s.gates /\ r.id \notin s.released
  /\ s' = ApplyRelease(s, {r.id})
  /\ UNCHANGED <<thr, caller>>

Ready(r) ==
  /\ r.ev = "ready"
  /\ "prog" \in DOMAIN s
  /\ IsAsync(s.prog) /\ ~s.inpoll
  /\ SeqToSet(r.ids) \subseteq s.gates
  \* C09: the wake-up of a parked branch reaches the macro's future
  /\ (~IsTasks(s.prog) /\ ParkedAt(s, SeqToSet(r.ids)) /\ s.ph \notin {"ended", "closed", "afail"}) => r.woken
  /\ s' = ApplyRelease(s, SeqToSet(r.ids))
  /\ UNCHANGED <<thr, caller>>

\* tasks: the runtime went idle.  Every branch must be parked at an unready gate or
\* have ended (independent progress), and a completed task must have woken the root.
Quiet(r) ==
  /\ r.ev = "quiet"
  /\ "prog" \in DOMAIN s
  /\ IsTasks(s.prog) /\ (~s.inpoll \/ s.ph = "ended")
  /\ BranchEvents(s) = {} \/ s.ph = "ended"      \* after completion detached tasks are only waiting for the harness
  /\ (s.sinceWake /\ s.ph = "step" => r.woken)
  /\ UNCHANGED <<s, thr, caller>>

\* C08, nesting: a callback of a spawn macro nested inside a spawned branch runs on a thread whose name extends
\* the enclosing thread's name by `_join_<b>` per level (`join_<b>` directly under an unnamed caller)
RECURSIVE NestedName(_, _)
NestedName(base, path) ==
  IF path = <<>> THEN base
  ELSE LET b == ToString(Head(path)) IN NestedName(IF base = "" THEN "join_" \o b ELSE base \o "_join_" \o b, Tail(path))
NestEv(r) ==
  /\ r.ev = "nest"
  /\ "prog" \in DOMAIN s
  /\ r.thr = NestedName(caller.name, r.path)
  /\ UNCHANGED <<s, thr, caller>>

Eof(r) ==
  /\ r.ev = "eof"
  /\ s.ph = "closed" \/ (s.ph = "ended" /\ (s.dropsFree \/ s.garbage = {}))
  /\ UNCHANGED <<s, thr, caller>>

TraceNext ==
  /\ l <= Len(Rec)
  /\ l' = l + 1
  /\ LET r == Rec[l] IN Reset(r) \/ SpecEvent(r) \/ Release(r) \/ Ready(r) \/ Quiet(r) \/ Eof(r) \/ NestEv(r)

TraceSpec == TraceInit /\ [][TraceNext]_tvars

TraceAccepted ==
  LET d == TLCGet("stats").diameter IN
  IF d - 1 = Len(Rec) THEN TRUE
  ELSE /\ PrintT(<<"TRACE_REJECTED", d, ToJson(Rec[d])>>)
       /\ FALSE
=============================================================================
