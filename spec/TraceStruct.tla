---------------------------- MODULE TraceStruct ----------------------------
(* Conformance judge for JoinStruct: every (input, observed outcome class) pair    *)
(* recorded from the real parser + generator (harness/libdrv) must equal the       *)
(* outcome of the implementation model.                                           *)
EXTENDS JoinStruct, IOUtils

Obs == ndJsonDeserialize(IOEnv.TRACE)

VARIABLE i
TInit == i = 1 /\ inp = [pick |-> TRUE] /\ st = St0
TNext == /\ i <= Len(Obs)
         /\ Outcome(Obs[i].inp) = Obs[i].observed
         /\ i' = i + 1
         /\ UNCHANGED <<inp, st>>
TSpec == TInit /\ [][TNext]_<<i, inp, st>>
Accepted ==
  LET d == TLCGet("stats").diameter IN
  IF d - 1 = Len(Obs) THEN TRUE
  ELSE PrintT(<<"OBS_REJECTED", d, ToJson(Obs[d]), Outcome(Obs[d].inp)>>) /\ FALSE
=============================================================================
