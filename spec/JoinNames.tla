------------------------------ MODULE JoinNames ------------------------------
(***************************************************************************)
(* C17 (naming half): the generator's internal names.  Each family is a      *)
(* function from indices to character strings; the expansion is only         *)
(* hygienic if every family is injective, the families and the fixed names   *)
(* are pairwise disjoint, and no generated name is a user-visible name.      *)
(* The same invariants are evaluated (TraceNames) on the names the REAL      *)
(* constructors return, so a renaming that keeps them distinct is accepted   *)
(* and `__ew1_11_0` vs `__ew11_1_0` style collisions are not.                *)
(***************************************************************************)
EXTENDS Integers, Sequences, FiniteSets, TLC, Json

CONSTANTS N,   \* indices 0..N-1 for the one-index families
          M    \* indices 0..M-1 for branch / position of operand names, 0..2 for the operand index

V(i)  == "__v" \o ToString(i)
SR(i) == "__sr" \o ToString(i)
R(i)  == "__r" \o ToString(i)
J(i)  == "__j" \o ToString(i)
EW(b, j, i) == "__ew" \o ToString(b) \o "_" \o ToString(j) \o "_" \o ToString(i)
Fixed == {"__v", "__h", "__rs", "__inspect", "__tb", "__spawn_tokio", "__fail_index", "__future", "__handler"}

Idx == 0 .. (N - 1)
Fam1 == [v |-> {V(i) : i \in Idx}, sr |-> {SR(i) : i \in Idx}, r |-> {R(i) : i \in Idx}, j |-> {J(i) : i \in Idx}]
EWs == {EW(b, j, i) : b \in 0 .. (M - 1), j \in 0 .. (M - 1), i \in 0 .. 2}

Injective1 == /\ Cardinality(Fam1.v) = N /\ Cardinality(Fam1.sr) = N /\ Cardinality(Fam1.r) = N /\ Cardinality(Fam1.j) = N
InjectiveEW == Cardinality(EWs) = M * M * 3
Disjoint ==
  LET fams == <<Fam1.v, Fam1.sr, Fam1.r, Fam1.j, EWs, Fixed>> IN
  \A a, b \in 1 .. Len(fams) : a < b => fams[a] \cap fams[b] = {}

VARIABLE dummy
Init == dummy = 0
Next == UNCHANGED dummy
Spec == Init /\ [][Next]_dummy
NamesOK == Injective1 /\ InjectiveEW /\ Disjoint
=============================================================================
