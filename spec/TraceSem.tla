------------------------------ MODULE TraceSem ------------------------------
(* Conformance judge for JoinSem: every observation recorded from a compiled invocation of the   *)
(* real macros - (chain, input, observed value, observed call trace) - must equal what the       *)
(* reference interpreter evaluates: Eval(chain, input) = [v, calls].                             *)
EXTENDS JoinSem, IOUtils

Obs == ndJsonDeserialize(IOEnv.TRACE)

VARIABLE i
TInit == i = 1 /\ chain = [start |-> "OI", items |-> <<>>]
InputOf(o) == IF IsIt(o.chain.start) THEN Iter(o.inp.v) ELSE o.inp
TNext == /\ i <= Len(Obs)
         /\ LET o == Obs[i]  r == IF o.try THEN EvalTry(o.chain, InputOf(o)) ELSE Eval(o.chain, InputOf(o)) IN r.v = o.v /\ r.calls = o.calls
         /\ i' = i + 1
         /\ UNCHANGED chain
TSpec == TInit /\ [][TNext]_<<i, chain>>
Accepted ==
  LET d == TLCGet("stats").diameter IN
  IF d - 1 = Len(Obs) THEN TRUE
  ELSE PrintT(<<"SEM_REJECTED", d>>) /\ FALSE
=============================================================================
