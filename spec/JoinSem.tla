------------------------------ MODULE JoinSem ------------------------------
(***************************************************************************)
(* Value semantics of a combinator chain (C01, C02): a typed reference       *)
(* interpreter of the DOCUMENTED meaning of the 22 operators, written from   *)
(* the README / lib.rs operator table, not from the generator:               *)
(*   |> map   => and_then   ?> filter   .. / >. member   -> call-with-value   *)
(*   <| or    <= or_else    !> map_err  =>[] collect     >@> chain            *)
(*   ?|>@ find_map  ?|> filter_map  |n> enumerate  ?&!> partition  ^^> flatten*)
(*   ^@ fold  ?^@ try_fold  ?@ find  >^> zip  <-> unzip  ?? inspect           *)
(* and of `X >>> inner <<< rest`  ==  .x(|v| v inner) rest, wrappers still    *)
(* open at a `~` or at the end of the branch closing implicitly there.       *)
(* Iterators are LAZY pipelines with a recursive Pull, so the interleaving   *)
(* of callback invocations, the early exit of find / find_map / try_fold,    *)
(* zip's first-then-second pulling and chain's order are part of the         *)
(* expected call trace.  TLC enumerates every well-typed chain up to a bound *)
(* (the state graph IS the set of well-typed chains) and emits, per chain    *)
(* and input, the expected value and call trace; the harness compiles each   *)
(* chain in the real macros, and next to it the plain-Rust method chain.     *)
(***************************************************************************)
EXTENDS Integers, Sequences, FiniteSets, TLC, Json

CONSTANTS Family, Tier, MaxLen

VARIABLES chain     \* [start: type, items: Seq(item)]
svars == <<chain>>

---------------------------------------------------------------------------
\* values: every value is [t, v]
I(n)    == [t |-> "i", v |-> n]
Bv(b)   == [t |-> "b", v |-> b]
Some(x) == [t |-> "some", v |-> x]
None    == [t |-> "none", v |-> 0]
Ok(x)   == [t |-> "ok", v |-> x]
Err(x)  == [t |-> "err", v |-> x]
Sq(q)   == [t |-> "seq", v |-> q]
Pr(a, b) == [t |-> "pair", v |-> <<a, b>>]
Unit    == [t |-> "unit", v |-> 0]
\* a lazy iterator: source + position + adapter stages
Iter(src) == [t |-> "iter", v |-> [src |-> src, pos |-> 1, stages |-> <<>>]]

\* items of the flat chain (what the user writes)
\*   [op, arg, deferred, mv: "none"|"wrap"|"unwrap", shape]
It(op, arg) == [op |-> op, arg |-> arg, deferred |-> FALSE, mv |-> "none", shape |-> "closure"]
Wrap(op)    == [op |-> op, arg |-> "", deferred |-> FALSE, mv |-> "wrap", shape |-> "closure"]
Unwrap      == [op |-> "unwrap", arg |-> "", deferred |-> FALSE, mv |-> "unwrap", shape |-> "closure"]
Def(it)     == [it EXCEPT !.deferred = TRUE]
Shaped(it, sh) == [it EXCEPT !.shape = sh]

---------------------------------------------------------------------------
\* primitive callbacks: name -> meaning.  CB(name, x) is the returned value.
CB(name, x) ==
  CASE name = "inc"    -> I(x.v + 1)
    [] name = "dbl"    -> I(x.v * 2)
    [] name = "half"   -> IF x.v % 2 = 0 THEN Some(I(x.v \div 2)) ELSE None
    [] name = "chk"    -> IF x.v < 3 THEN Ok(I(x.v)) ELSE Err(I(x.v))
    [] name = "isEven" -> Bv(x.v % 2 = 0)
    [] name = "isSome" -> Bv(x.t = "some")
    [] name = "mk9"    -> Some(I(9))
    [] name = "rec"    -> Ok(I(x.v + 1))
    [] name = "refail" -> Err(I(x.v + 1))
    [] name = "e10"    -> I(x.v + 10)
    [] name = "psum"   -> I(x.v[1].v + x.v[2].v)
    [] name = "addAcc" -> I(x.v[1].v + x.v[2].v)
    [] name = "tryAcc" -> IF x.v[2].v < 3 THEN Some(I(x.v[1].v + x.v[2].v)) ELSE None
    [] name = "nop"    -> Unit
    [] name = "idt"    -> x
    [] name = "wrapSome" -> Some(x)

\* by-value operands
ValOf(name) ==
  CASE name = "alt9"   -> Some(I(9))
    [] name = "altNone" -> None
    [] name = "altOk9" -> Ok(I(9))
    [] name = "altErr7" -> Err(I(7))
    \* longer than every input: whether Zip pulls its first iterator once more after the second ran dry
    \* depends on std's TrustedRandomAccess specialisation, which is not part of any documented meaning
    [] name = "iter2"  -> Iter(<<I(7), I(8), I(9), I(10), I(11)>>)
    \* zip's operand: longer than any iterator a chain of the explored length can build (see iter2)
    [] name = "iterL"  -> Iter([i \in 1 .. 24 |-> I(i + 100)])
    [] name = "zero"   -> I(0)

---------------------------------------------------------------------------
\* static types (strings).  O*: Option, R*: Result<_, i64>, It*: iterator, V*: Vec,
\* P: (i64, i64), EP: (usize, i64), VV: (Vec, Vec)
ElemOfIt(t) == CASE t = "ItI" -> "I" [] t = "ItOI" -> "OI" [] t = "ItP" -> "P" [] t = "ItEP" -> "EP" [] OTHER -> "bad"
ItOf(e) == CASE e = "I" -> "ItI" [] e = "OI" -> "ItOI" [] e = "P" -> "ItP" [] e = "EP" -> "ItEP" [] OTHER -> "bad"
VecOf(e) == CASE e = "I" -> "VI" [] e = "OI" -> "VOI" [] e = "P" -> "VP" [] e = "EP" -> "VEP" [] OTHER -> "bad"
IsIt(t) == t \in {"ItI", "ItOI", "ItP", "ItEP"}

\* type of a callback's result given its argument type ("bad" if it does not apply)
CbTy(name, a) ==
  CASE name \in {"inc", "dbl"} /\ a = "I" -> "I"
    [] name = "half" /\ a = "I" -> "OI"
    [] name = "chk" /\ a = "I" -> "RI"
    [] name = "isEven" /\ a = "I" -> "B"
    [] name = "isSome" /\ a = "OI" -> "B"
    [] name = "psum" /\ a \in {"P", "EP"} -> "I"
    [] name = "wrapSome" /\ a = "I" -> "OI"
    [] OTHER -> "bad"

\* Ty(t, op, arg): type after applying a NON-wrapper item to a value of type t
NoArgOps == {"collect", "enumerate", "flatten", "unzip"}
Ty0(t, op, arg) ==
  CASE \* ---- Option
       t = "OI" /\ op = "map" /\ CbTy(arg, "I") \in {"I", "OI"} -> IF CbTy(arg, "I") = "I" THEN "OI" ELSE "OOI"
    [] t = "OI" /\ op = "and_then" /\ arg = "half" -> "OI"
    [] t = "OI" /\ op = "filter" /\ arg = "isEven" -> "OI"
    [] t = "OI" /\ op = "or" /\ arg \in {"alt9", "altNone"} -> "OI"
    [] t = "OI" /\ op = "or_else" /\ arg = "mk9" -> "OI"
    [] t = "OI" /\ op = "inspect" /\ arg = "nop" -> "OI"
    [] t = "OI" /\ op = "then" /\ arg = "idt" -> "OI"
    [] t = "OI" /\ op = "dot" /\ arg = "unwrap_or0" -> "I"
    [] t = "OI" /\ op = "dot" /\ arg = "is_some" -> "B"
    [] t = "OI" /\ op = "dot" /\ arg = "ok_or5" -> "RI"
    [] t = "OI" /\ op = "dot" /\ arg = "into_iter" -> "ItI"
    [] t = "OI" /\ op = "zip" /\ arg = "alt9" -> "OP"
    [] t = "OOI" /\ op = "flatten" -> "OI"
    [] t = "OOI" /\ op = "dot" /\ arg = "is_some" -> "B"
    [] t = "OOI" /\ op = "inspect" /\ arg = "nop" -> "OOI"
    [] t = "OP" /\ op = "map" /\ arg = "psum" -> "OI"
    \* ---- Result
    [] t = "RI" /\ op = "map" /\ arg \in {"inc", "dbl"} -> "RI"
    [] t = "RI" /\ op = "and_then" /\ arg = "chk" -> "RI"
    [] t = "RI" /\ op = "or" /\ arg \in {"altOk9", "altErr7"} -> "RI"
    [] t = "RI" /\ op = "or_else" /\ arg \in {"rec", "refail"} -> "RI"
    [] t = "RI" /\ op = "map_err" /\ arg = "e10" -> "RI"
    [] t = "RI" /\ op = "inspect" /\ arg = "nop" -> "RI"
    [] t = "RI" /\ op = "then" /\ arg = "idt" -> "RI"
    [] t = "RI" /\ op = "dot" /\ arg = "ok" -> "OI"
    [] t = "RI" /\ op = "dot" /\ arg = "unwrap_or0" -> "I"
    [] t = "RI" /\ op = "dot" /\ arg = "into_iter" -> "ItI"
    \* ---- iterators
    [] IsIt(t) /\ op = "map" /\ CbTy(arg, ElemOfIt(t)) \in {"I", "OI"} -> ItOf(CbTy(arg, ElemOfIt(t)))
    [] t = "ItI" /\ op = "filter" /\ arg = "isEven" -> "ItI"
    [] t = "ItOI" /\ op = "filter" /\ arg = "isSome" -> "ItOI"
    [] t = "ItI" /\ op = "filter_map" /\ arg = "half" -> "ItI"
    [] t = "ItI" /\ op = "find" /\ arg = "isEven" -> "OI"
    [] t = "ItI" /\ op = "find_map" /\ arg = "half" -> "OI"
    [] t = "ItI" /\ op = "enumerate" -> "ItEP"
    [] t = "ItI" /\ op = "chain" /\ arg = "iter2" -> "ItI"
    [] t = "ItI" /\ op = "zip" /\ arg = "iterL" -> "ItP"
    [] t = "ItOI" /\ op = "flatten" -> "ItI"
    [] t = "ItI" /\ op = "fold" /\ arg = "addAcc" -> "I"
    [] t = "ItI" /\ op = "try_fold" /\ arg = "tryAcc" -> "OI"
    [] t = "ItI" /\ op = "partition" /\ arg = "isEven" -> "VV"
    [] t = "ItP" /\ op = "unzip" -> "VV"
    [] IsIt(t) /\ op = "collect" -> VecOf(ElemOfIt(t))
    [] IsIt(t) /\ op = "inspect" /\ arg = "nop" -> t
    [] IsIt(t) /\ op = "then" /\ arg = "idt" -> t
    [] IsIt(t) /\ op = "dot" /\ arg = "count" -> "I"
    [] t = "ItI" /\ op = "dot" /\ arg = "sum" -> "I"
    [] t = "ItI" /\ op = "dot" /\ arg = "last" -> "OI"
    \* ---- vectors and scalars
    [] t \in {"VI", "VOI", "VP", "VEP"} /\ op = "dot" /\ arg = "into_iter" ->
         (CASE t = "VI" -> "ItI" [] t = "VOI" -> "ItOI" [] t = "VP" -> "ItP" [] t = "VEP" -> "ItEP")
    [] t \in {"VI", "VOI", "VP", "VEP"} /\ op = "dot" /\ arg = "len" -> "I"
    [] t = "I" /\ op = "then" /\ arg \in {"inc", "wrapSome"} -> CbTy(arg, "I")
    [] OTHER -> "bad"

Ty(t, op, arg) == IF (op \in NoArgOps) # (arg = "") THEN "bad" ELSE Ty0(t, op, arg)

\* wrapper items: parameter type of the closure and the type the inner chain must produce
WrapParam(t, op) ==
  CASE t = "OI" /\ op \in {"map", "and_then"} -> "I"
    [] t = "OOI" /\ op \in {"map", "and_then"} -> "OI"
    [] t = "OOI" /\ op = "filter" -> "rOI"                      \* by reference
    [] t \in {"OI", "OOI", "RI"} /\ op = "inspect" -> "r" \o t   \* sync `??`: the whole value by reference
    [] IsIt(t) /\ op = "inspect" -> "rIt"
    [] t = "RI" /\ op = "map" -> "I"
    [] t = "RI" /\ op = "and_then" -> "I"
    [] t = "RI" /\ op \in {"or_else", "map_err"} -> "E"
    [] t = "ItOI" /\ op \in {"map", "filter_map", "find_map"} -> "OI"
    [] t = "ItOI" /\ op \in {"filter", "find", "partition"} -> "rOI"
    [] t = "ItI" /\ op \in {"map", "filter_map", "find_map"} -> "I"
    [] OTHER -> "bad"
\* result type of the wrapper given the type the inner chain produced ("bad" if it does not fit)
WrapTy(t, op, inner) ==
  CASE t = "OI" /\ op = "map" /\ inner \in {"I", "OI"} -> IF inner = "I" THEN "OI" ELSE "OOI"
    [] t = "OI" /\ op = "and_then" /\ inner = "OI" -> "OI"
    [] t = "OOI" /\ op = "map" /\ inner \in {"I", "OI"} -> IF inner = "I" THEN "OI" ELSE "OOI"
    [] t = "OOI" /\ op = "and_then" /\ inner = "OI" -> "OI"
    [] t = "OOI" /\ op = "filter" /\ inner = "B" -> "OOI"
    [] op = "inspect" /\ inner = "U" -> t
    [] t = "RI" /\ op = "map" /\ inner = "I" -> "RI"
    [] t = "RI" /\ op = "and_then" /\ inner = "RI" -> "RI"
    [] t = "RI" /\ op = "or_else" /\ inner = "RI" -> "RI"
    [] t = "RI" /\ op = "map_err" /\ inner = "I" -> "RI"
    [] t = "ItOI" /\ op = "map" /\ inner \in {"I", "OI"} -> ItOf(inner)
    [] t = "ItOI" /\ op = "filter_map" /\ inner = "OI" -> "ItI"
    [] t = "ItOI" /\ op = "find_map" /\ inner = "OI" -> "OI"
    [] t = "ItOI" /\ op = "filter" /\ inner = "B" -> "ItOI"
    [] t = "ItOI" /\ op = "find" /\ inner = "B" -> "OOI"
    [] t = "ItOI" /\ op = "partition" /\ inner = "B" -> "VV"
    [] t = "ItI" /\ op = "map" /\ inner \in {"I", "OI"} -> ItOf(inner)
    [] t = "ItI" /\ op = "filter_map" /\ inner = "OI" -> "ItI"
    [] t = "ItI" /\ op = "find_map" /\ inner = "OI" -> "OI"
    [] OTHER -> "bad"
\* items applicable to a by-reference / error parameter inside a wrapper
TyRef(t, op, arg) ==
  CASE t = "rOI" /\ op = "dot" /\ arg = "is_some" -> "B"
    [] t \in {"rOI", "rOOI", "rRI", "rIt"} /\ op = "then" /\ arg = "nop" -> "U"
    [] t = "rOOI" /\ op = "dot" /\ arg = "is_some" -> "B"
    [] t = "E" /\ op = "then" /\ arg = "rec" -> "RI"
    [] t = "E" /\ op = "then" /\ arg = "refail" -> "RI"
    [] t = "E" /\ op = "then" /\ arg = "e10" -> "I"
    [] OTHER -> "bad"
RefTys == {"rOI", "rOOI", "rRI", "rIt", "E"}
TyAny(t, op, arg) == IF t \in RefTys THEN TyRef(t, op, arg) ELSE Ty(t, op, arg)

---------------------------------------------------------------------------
\* desugaring: flat items -> tree (the README's rule  X >>> inner <<< rest == .x(|v| v inner) rest).
\* ParseBody(items, i) parses the body of a wrapper from item i; it ends at an `<<<` (consumed), at a
\* deferred item (NOT consumed: the step boundary closes every open wrapper) or at the end of the branch.
Node(it, i, inner) == [op |-> it.op, arg |-> it.arg, site |-> i, wrapped |-> it.mv = "wrap", inner |-> inner, shape |-> it.shape]
\* C01: an operand that is an expression with an evaluation of its own (call, field access, method call, index, if/else, macro
\* invocation) is evaluated where the documented method chain evaluates it: when the method is called, after everything to its
\* left in the same expression, once per evaluation of that expression (per item inside a wrapper over an iterator) - except
\* the operand of `->` and of the sequential `??`, which is the callee / first argument of the emitted call and is therefore
\* evaluated before the receiver chain, the later operator's first.  (Blocks are captures: CapCalls.  Closures, paths and
\* references have no evaluation to speak of.)
EvalShapes == {"call", "field", "method", "index", "ifelse", "macro"}
HasOpndEv(n) == n.shape \in EvalShapes /\ ~n.wrapped
IsEarlyNode(n) == HasOpndEv(n) /\ n.op \in {"then", "inspect"}
OpndEvOf(n) == <<[site |-> n.site, cb |-> "opnd", arg |-> I(0)]>>
LateEv(n) == IF HasOpndEv(n) /\ ~IsEarlyNode(n) THEN OpndEvOf(n) ELSE <<>>
RECURSIVE EarlyEvs(_)
EarlyEvs(nodes) == IF nodes = <<>> THEN <<>>
                   ELSE EarlyEvs(Tail(nodes)) \o (IF IsEarlyNode(nodes[1]) THEN OpndEvOf(nodes[1]) ELSE <<>>)
RECURSIVE ParseBody(_, _)
ParseBody(items, i) ==
  IF i > Len(items) THEN [nodes |-> <<>>, next |-> i, why |-> "end"]
  ELSE LET it == items[i] IN
    IF it.deferred THEN [nodes |-> <<>>, next |-> i, why |-> "step"]
    ELSE IF it.op = "unwrap" THEN [nodes |-> <<>>, next |-> i + 1, why |-> "unwrap"]
    ELSE IF it.mv = "wrap"
      THEN LET inner == ParseBody(items, i + 1) IN
           IF inner.why = "unwrap"
           THEN LET rest == ParseBody(items, inner.next) IN
                [nodes |-> <<Node(it, i, inner.nodes)>> \o rest.nodes, next |-> rest.next, why |-> rest.why]
           ELSE [nodes |-> <<Node(it, i, inner.nodes)>>, next |-> inner.next, why |-> inner.why]
      ELSE LET rest == ParseBody(items, i + 1) IN
           [nodes |-> <<Node(it, i, <<>>)>> \o rest.nodes, next |-> rest.next, why |-> rest.why]

RECURSIVE ParseTop(_, _)
ParseTop(items, i) ==
  IF i > Len(items) THEN <<>>
  ELSE LET it == items[i] IN
    IF it.mv = "wrap"
    THEN LET inner == ParseBody(items, i + 1) IN <<Node(it, i, inner.nodes)>> \o ParseTop(items, inner.next)
    ELSE <<Node(it, i, <<>>)>> \o ParseTop(items, i + 1)

Desugar(items) == ParseTop(items, 1)

\* structural well-formedness of the flat chain (C15's Valid, restricted to wrappers)
RECURSIVE Balanced(_, _, _)
Balanced(items, i, open) ==
  IF i > Len(items) THEN TRUE
  ELSE LET it == items[i]  o0 == IF it.deferred THEN 0 ELSE open IN
       IF it.op = "unwrap" THEN o0 > 0 /\ Balanced(items, i + 1, o0 - 1)
       ELSE IF it.mv = "wrap" THEN Balanced(items, i + 1, o0 + 1)
       ELSE Balanced(items, i + 1, o0)

---------------------------------------------------------------------------
\* typing of trees
RECURSIVE TyNodes(_, _)
TyNodes(nodes, t) ==
  IF t = "bad" THEN "bad"
  ELSE IF nodes = <<>> THEN t
  ELSE LET n == nodes[1] IN
       IF n.wrapped
       THEN LET pt == WrapParam(t, n.op)
                it == IF pt = "bad" THEN "bad" ELSE TyNodes(n.inner, pt)
                it2 == IF it \in RefTys THEN "bad" ELSE it
            IN  TyNodes(Tail(nodes), IF it2 = "bad" THEN "bad" ELSE WrapTy(t, n.op, it2))
       ELSE TyNodes(Tail(nodes), TyAny(t, n.op, n.arg))
TyChain(c) == IF Balanced(c.items, 1, 0) THEN TyNodes(Desugar(c.items), c.start) ELSE "bad"

\* the type each item is applied to (for a wrapper: the type it wraps; its inner items see the parameter)
RECURSIVE SiteTys(_, _)
SiteTys(nodes, t) ==
  IF nodes = <<>> THEN {}
  ELSE LET n == nodes[1] IN
       IF n.wrapped
       THEN LET pt == WrapParam(t, n.op)
                it == TyNodes(n.inner, pt)
            IN  {[site |-> n.site, ty |-> t, param |-> pt, inner |-> it]} \cup SiteTys(n.inner, pt) \cup SiteTys(Tail(nodes), WrapTy(t, n.op, it))
       ELSE {[site |-> n.site, ty |-> t, param |-> "", inner |-> ""]} \cup SiteTys(Tail(nodes), TyAny(t, n.op, n.arg))

---------------------------------------------------------------------------
\* evaluation.  A result is [v, calls]; calls is a sequence of <<site, name, argument>>.
R(v, calls) == [v |-> v, calls |-> calls]
Call(site, name, x) == <<[site |-> site, cb |-> name, arg |-> IF x.t = "iter" THEN [t |-> "iter", v |-> 0] ELSE x]>>

\* --- lazy pipelines.  Pull returns [tag: "item"|"end", v, p (updated pipe), calls]
\* Callbacks of stages are node records: primitive (arg) or wrapper closures (inner chain).
RECURSIVE EvalNodes(_, _)
RECURSIVE EvalNodes0(_, _)
RECURSIVE Invoke(_, _)
RECURSIVE PullAt(_, _)
RECURSIVE PullAll(_, _, _)
RECURSIVE SumSeq(_, _)
SumSeq(q, i) == IF i > Len(q) THEN 0 ELSE q[i].v + SumSeq(q, i + 1)

Pull(p) == PullAt(p, Len(p.stages))

\* drain a value for comparison: iterators become sequences (running their callbacks)
RECURSIVE Drain(_)
Drain(r) ==
  IF r.v.t = "iter"
  THEN LET all == PullAll(r.v.v, <<>>, <<>>) IN R(Sq(all.items), r.calls \o all.calls)
  ELSE r

PullAll(p, acc, calls) ==
  LET r == Pull(p) IN
  IF r.tag = "end" THEN [items |-> acc, calls |-> calls \o r.calls, p |-> r.p]
  ELSE PullAll(r.p, Append(acc, r.v), calls \o r.calls)

\* invoke the callback of node n on x: primitive, or the wrapper's inner chain (|v| v inner..)
Invoke(n, x) ==
  IF n.wrapped THEN LET r == EvalNodes(n.inner, x) IN r     \* nested closure
  ELSE R(CB(n.arg, x), Call(n.site, n.arg, x))

SetStage(p, k, st) == [p EXCEPT !.stages[k].st = st]

PullAt(p, k) ==
  IF k = 0 THEN
     IF p.pos > Len(p.src) THEN [tag |-> "end", v |-> Unit, p |-> p, calls |-> <<>>]
     ELSE [tag |-> "item", v |-> p.src[p.pos], p |-> [p EXCEPT !.pos = p.pos + 1], calls |-> <<>>]
  ELSE
  LET s == p.stages[k] IN
  CASE s.k = "map" ->
         LET r == PullAt(p, k - 1) IN
         IF r.tag = "end" THEN r
         ELSE LET c == Invoke(s.n, r.v) IN [tag |-> "item", v |-> c.v, p |-> r.p, calls |-> r.calls \o c.calls]
    [] s.k = "inspect" ->
         LET r == PullAt(p, k - 1) IN
         IF r.tag = "end" THEN r
         ELSE LET c == Invoke(s.n, r.v) IN [r EXCEPT !.calls = r.calls \o c.calls]
    [] s.k = "filter" ->
         LET r == PullAt(p, k - 1) IN
         IF r.tag = "end" THEN r
         ELSE LET c == Invoke(s.n, r.v) IN
              IF c.v.v THEN [r EXCEPT !.calls = r.calls \o c.calls]
              ELSE LET r2 == PullAt(r.p, k) IN [r2 EXCEPT !.calls = r.calls \o c.calls \o r2.calls]
    [] s.k = "filter_map" ->
         LET r == PullAt(p, k - 1) IN
         IF r.tag = "end" THEN r
         ELSE LET c == Invoke(s.n, r.v) IN
              IF c.v.t = "some" THEN [tag |-> "item", v |-> c.v.v, p |-> r.p, calls |-> r.calls \o c.calls]
              ELSE LET r2 == PullAt(r.p, k) IN [r2 EXCEPT !.calls = r.calls \o c.calls \o r2.calls]
    [] s.k = "flatten" ->
         LET r == PullAt(p, k - 1) IN
         IF r.tag = "end" THEN r
         ELSE IF r.v.t = "some" THEN [r EXCEPT !.v = r.v.v]
              ELSE LET r2 == PullAt(r.p, k) IN [r2 EXCEPT !.calls = r.calls \o r2.calls]
    [] s.k = "enumerate" ->
         LET r == PullAt(p, k - 1) IN
         IF r.tag = "end" THEN r
         ELSE [tag |-> "item", v |-> Pr(I(s.st), r.v), p |-> SetStage(r.p, k, s.st + 1), calls |-> r.calls]
    [] s.k = "chain" ->
         IF s.st.first
         THEN LET r == PullAt(p, k - 1) IN
              IF r.tag = "item" THEN r
              ELSE LET r2 == PullAt(SetStage(r.p, k, [s.st EXCEPT !.first = FALSE]), k) IN [r2 EXCEPT !.calls = r.calls \o r2.calls]
         ELSE LET r == Pull(s.st.other) IN
              [tag |-> r.tag, v |-> r.v, p |-> SetStage(p, k, [s.st EXCEPT !.other = r.p]), calls |-> r.calls]
    [] s.k = "zip" ->
         LET r == PullAt(p, k - 1) IN
         IF r.tag = "end" THEN r
         ELSE LET r2 == Pull(s.st.other) IN
              IF r2.tag = "end" THEN [tag |-> "end", v |-> Unit, p |-> SetStage(r.p, k, [s.st EXCEPT !.other = r2.p]), calls |-> r.calls \o r2.calls]
              ELSE [tag |-> "item", v |-> Pr(r.v, r2.v), p |-> SetStage(r.p, k, [s.st EXCEPT !.other = r2.p]), calls |-> r.calls \o r2.calls]

AddStage(itv, kind, n, st) ==
  [t |-> "iter", v |-> [itv.v EXCEPT !.stages = Append(itv.v.stages, [k |-> kind, n |-> n, st |-> st])]]

\* consumers with early exit
RECURSIVE FindLoop(_, _, _, _)
FindLoop(p, n, calls, mode) ==    \* mode "find": pred by ref; "find_map": Option result
  LET r == Pull(p) IN
  IF r.tag = "end" THEN R(None, calls \o r.calls)
  ELSE LET c == Invoke(n, r.v) IN
       IF mode = "find" THEN (IF c.v.v THEN R(Some(r.v), calls \o r.calls \o c.calls) ELSE FindLoop(r.p, n, calls \o r.calls \o c.calls, mode))
       ELSE (IF c.v.t = "some" THEN R(c.v, calls \o r.calls \o c.calls) ELSE FindLoop(r.p, n, calls \o r.calls \o c.calls, mode))

RECURSIVE FoldLoop(_, _, _, _, _)
FoldLoop(p, n, acc, calls, try) ==
  LET r == Pull(p) IN
  IF r.tag = "end" THEN R(IF try THEN Some(acc) ELSE acc, calls \o r.calls)
  ELSE LET c == Invoke(n, Pr(acc, r.v)) IN
       IF try THEN (IF c.v.t = "some" THEN FoldLoop(r.p, n, c.v.v, calls \o r.calls \o c.calls, try) ELSE R(None, calls \o r.calls \o c.calls))
       ELSE FoldLoop(r.p, n, c.v, calls \o r.calls \o c.calls, try)

RECURSIVE PartLoop(_, _, _, _, _)
PartLoop(p, n, yes, no, calls) ==
  LET r == Pull(p) IN
  IF r.tag = "end" THEN R(Pr(Sq(yes), Sq(no)), calls \o r.calls)
  ELSE LET c == Invoke(n, r.v) IN
       IF c.v.v THEN PartLoop(r.p, n, Append(yes, r.v), no, calls \o r.calls \o c.calls)
       ELSE PartLoop(r.p, n, yes, Append(no, r.v), calls \o r.calls \o c.calls)

SeqMap(q, F(_)) == [i \in 1 .. Len(q) |-> F(q[i])]

\* one node applied to a value
Apply1(n, x) ==
  LET op == n.op IN
  CASE x.t = "iter" /\ op \in {"map", "filter", "filter_map"} -> R(AddStage(x, op, n, 0), <<>>)
    [] x.t = "iter" /\ op = "flatten" -> R(AddStage(x, "flatten", n, 0), <<>>)
    [] x.t = "iter" /\ op = "enumerate" -> R(AddStage(x, "enumerate", n, 0), <<>>)
    [] x.t = "iter" /\ op \in {"chain", "zip"} -> R(AddStage(x, op, n, [first |-> TRUE, other |-> ValOf(n.arg).v]), <<>>)
    [] x.t = "iter" /\ op \in {"find", "find_map"} -> FindLoop(x.v, n, <<>>, op)
    [] x.t = "iter" /\ op = "fold" -> FoldLoop(x.v, n, I(0), <<>>, FALSE)
    [] x.t = "iter" /\ op = "try_fold" -> FoldLoop(x.v, n, I(0), <<>>, TRUE)
    [] x.t = "iter" /\ op = "partition" -> PartLoop(x.v, n, <<>>, <<>>, <<>>)
    [] x.t = "iter" /\ op = "collect" -> LET a == PullAll(x.v, <<>>, <<>>) IN R(Sq(a.items), a.calls)
    [] x.t = "iter" /\ op = "unzip" ->
         LET a == PullAll(x.v, <<>>, <<>>) IN
         R(Pr(Sq(SeqMap(a.items, LAMBDA e : e.v[1])), Sq(SeqMap(a.items, LAMBDA e : e.v[2]))), a.calls)
    [] x.t = "iter" /\ op = "dot" /\ n.arg = "count" -> LET a == PullAll(x.v, <<>>, <<>>) IN R(I(Len(a.items)), a.calls)
    [] x.t = "iter" /\ op = "dot" /\ n.arg = "sum" ->
         LET a == PullAll(x.v, <<>>, <<>>) IN R(I(SumSeq(a.items, 1)), a.calls)
    [] x.t = "iter" /\ op = "dot" /\ n.arg = "last" ->
         LET a == PullAll(x.v, <<>>, <<>>) IN R(IF a.items = <<>> THEN None ELSE Some(a.items[Len(a.items)]), a.calls)
    \* Option / Result
    [] op = "map" /\ x.t \in {"some", "ok"} -> LET c == Invoke(n, x.v) IN R([t |-> x.t, v |-> c.v], c.calls)
    [] op = "map" /\ x.t \in {"none", "err"} -> R(x, <<>>)
    [] op = "and_then" /\ x.t \in {"some", "ok"} -> Invoke(n, x.v)
    [] op = "and_then" /\ x.t \in {"none", "err"} -> R(x, <<>>)
    [] op = "filter" /\ x.t = "some" -> LET c == Invoke(n, x.v) IN R(IF c.v.v THEN x ELSE None, c.calls)
    [] op = "filter" /\ x.t = "none" -> R(x, <<>>)
    [] op = "or" -> R(IF x.t \in {"some", "ok"} THEN x ELSE ValOf(n.arg), <<>>)
    [] op = "or_else" /\ x.t \in {"some", "ok"} -> R(x, <<>>)
    [] op = "or_else" /\ x.t = "none" -> Invoke(n, Unit)
    [] op = "or_else" /\ x.t = "err" -> Invoke(n, x.v)
    [] op = "map_err" /\ x.t = "err" -> LET c == Invoke(n, x.v) IN R(Err(c.v), c.calls)
    [] op = "map_err" /\ x.t = "ok" -> R(x, <<>>)
    [] op = "zip" /\ x.t = "some" -> R(IF ValOf(n.arg).t = "some" THEN Some(Pr(x.v, ValOf(n.arg).v)) ELSE None, <<>>)
    [] op = "zip" /\ x.t = "none" -> R(None, <<>>)
    [] op = "flatten" /\ x.t = "some" -> R(x.v, <<>>)
    [] op = "flatten" /\ x.t = "none" -> R(None, <<>>)
    [] op = "inspect" -> LET c == Invoke(n, x) IN R(x, c.calls)            \* passes the value through unchanged
    [] op = "then" -> Invoke(n, x)                                          \* f(value)
    [] op = "dot" /\ n.arg = "unwrap_or0" -> R(IF x.t \in {"some", "ok"} THEN x.v ELSE I(0), <<>>)
    [] op = "dot" /\ n.arg = "is_some" -> R(Bv(x.t = "some"), <<>>)
    [] op = "dot" /\ n.arg = "ok_or5" -> R(IF x.t = "some" THEN Ok(x.v) ELSE Err(I(5)), <<>>)
    [] op = "dot" /\ n.arg = "ok" -> R(IF x.t = "ok" THEN Some(x.v) ELSE None, <<>>)
    [] op = "dot" /\ n.arg = "into_iter" /\ x.t = "seq" -> R(Iter(x.v), <<>>)
    [] op = "dot" /\ n.arg = "into_iter" /\ x.t \in {"some", "ok"} -> R(Iter(<<x.v>>), <<>>)
    [] op = "dot" /\ n.arg = "into_iter" /\ x.t \in {"none", "err"} -> R(Iter(<<>>), <<>>)
    [] op = "dot" /\ n.arg = "len" -> R(I(Len(x.v)), <<>>)

EvalNodes0(nodes, x) ==
  IF nodes = <<>> THEN R(x, <<>>)
  ELSE LET a == Apply1(nodes[1], x)
           b == EvalNodes0(Tail(nodes), a.v)
       IN  R(b.v, LateEv(nodes[1]) \o a.calls \o b.calls)
\* one expression (the body of a wrapper closure, evaluated once per call of that closure)
EvalNodes(nodes, x) == LET r == EvalNodes0(nodes, x) IN R(r.v, EarlyEvs(nodes) \o r.calls)

\* C11: an operand written as a {..} block is evaluated once, at the start of the step it belongs to,
\* before any other expression of that step, in position order (both operands of fold / try_fold).
CapCalls(items, lo, hi) ==
  LET RECURSIVE Go(_)
      Go(i) == IF i > hi THEN <<>>
               ELSE (CASE items[i].shape = "block"  -> <<[site |-> i, cb |-> "cap", arg |-> I(IF items[i].op \in {"fold", "try_fold"} THEN 1 ELSE 0)]>>
                       [] items[i].shape = "block2" -> <<[site |-> i, cb |-> "cap", arg |-> I(0)], [site |-> i, cb |-> "cap", arg |-> I(1)]>>
                       [] OTHER -> <<>>) \o Go(i + 1)
  IN  Go(lo)
\* first flat index of the step after the one that starts at top-level node k
NextStepSite(items, nodes, k) ==
  LET later == {q \in (k + 1) .. Len(nodes) : items[nodes[q].site].deferred} IN
  IF later = {} THEN Len(items) + 1 ELSE nodes[CHOOSE q \in later : \A p \in later : q <= p].site
\* the top-level nodes of the step that starts at node k (one expression)
StepNodes(items, nodes, k) ==
  LET later == {q \in (k + 1) .. Len(nodes) : items[nodes[q].site].deferred}
      e == IF later = {} THEN Len(nodes) ELSE (CHOOSE q \in later : \A p \in later : q <= p) - 1
  IN  SubSeq(nodes, k, e)
RECURSIVE EvalSteps(_, _, _, _)
EvalSteps(items, nodes, k, r) ==     \* r = [v, calls] so far
  IF k > Len(nodes) THEN r
  ELSE LET starts == k = 1 \/ items[nodes[k].site].deferred
           caps == IF starts THEN CapCalls(items, IF k = 1 THEN 1 ELSE nodes[k].site, NextStepSite(items, nodes, k) - 1)
                                   \o EarlyEvs(StepNodes(items, nodes, k)) ELSE <<>>
           a == Apply1(nodes[k], r.v)
       IN  EvalSteps(items, nodes, k + 1, R(a.v, r.calls \o caps \o LateEv(nodes[k]) \o a.calls))

\* the documented value of the chain on an input: evaluate step by step, then drain iterators
Eval(c, x) == Drain(EvalSteps(c.items, Desugar(c.items), 1, R(x, <<>>)))

\* The same chain as the single branch of a TRY macro: the macro looks at the branch's value at the end of every step and
\* stops there if it is a failure (None / Err): nothing of a later step - callback, capture, operand - is evaluated (C05, C06).
Failed(v) == v.t \in {"none", "err"}
RECURSIVE EvalStepsT(_, _, _, _)
EvalStepsT(items, nodes, k, r) ==
  IF k > Len(nodes) THEN r
  ELSE LET starts == k = 1 \/ items[nodes[k].site].deferred IN
       IF items[nodes[k].site].deferred /\ Failed(r.v) THEN r      \* (also in front of a chain that begins with `~`)
       ELSE LET caps == IF starts THEN CapCalls(items, IF k = 1 THEN 1 ELSE nodes[k].site, NextStepSite(items, nodes, k) - 1)
                                        \o EarlyEvs(StepNodes(items, nodes, k)) ELSE <<>>
                a == Apply1(nodes[k], r.v)
            IN  EvalStepsT(items, nodes, k + 1, R(a.v, r.calls \o caps \o LateEv(nodes[k]) \o a.calls))
EvalTry(c, x) == Drain(EvalStepsT(c.items, Desugar(c.items), 1, R(x, <<>>)))
HasDeferred(c) == \E i \in 1 .. Len(c.items) : c.items[i].deferred

---------------------------------------------------------------------------
\* inputs per start type
Inputs(t) ==
  CASE t = "OI"  -> {Some(I(1)), Some(I(2)), None}
    [] t = "OOI" -> {Some(Some(I(2))), Some(None), None}
    [] t = "RI"  -> {Ok(I(1)), Ok(I(4)), Err(I(5))}
    [] t = "ItI" -> {Iter(<<>>), Iter(<<I(2)>>), Iter(<<I(1), I(2), I(3), I(4)>>)}
    [] t = "ItOI" -> {Iter(<<>>), Iter(<<Some(I(1)), None, Some(I(2))>>)}
    [] t = "ItP" -> {Iter(<<Pr(I(1), I(2)), Pr(I(3), I(4))>>)}
    [] t = "VI"  -> {Sq(<<I(1), I(2), I(3)>>)}
StartTypes == {"OI", "OOI", "RI", "ItI", "ItOI", "ItP", "VI"}

\* the item alphabet
Prims == {"inc", "dbl", "half", "chk", "isEven", "isSome", "mk9", "rec", "refail", "e10", "psum", "addAcc", "tryAcc", "nop", "idt", "wrapSome",
          "alt9", "altNone", "altOk9", "altErr7", "iter2", "iterL", "unwrap_or0", "is_some", "ok_or5", "into_iter", "ok", "count", "sum", "last", "len", ""}
Ops == {"map", "and_then", "filter", "dot", "then", "or", "or_else", "map_err", "collect", "chain", "find_map", "filter_map",
        "enumerate", "partition", "flatten", "fold", "try_fold", "find", "zip", "unzip", "inspect"}
WrapOps == {"map", "and_then", "filter", "inspect", "filter_map", "find", "find_map", "partition", "or_else", "map_err"}
PlainItems == {It(op, a) : op \in Ops, a \in Prims}
WrapItems == {Wrap(op) : op \in WrapOps} \cup {Unwrap}

\* A chain under construction may end inside wrappers that are still open; such a prefix is explorable when
\* the type at the cursor (the parameter of the innermost open wrapper after its inner items) is defined, even
\* if closing the wrapper right there would not type-check (`?> >>>` needs a bool-producing inner chain first).
RECURSIVE OpenAtEnd0(_, _, _)
OpenAtEnd0(items, i, open) ==
  IF i > Len(items) THEN open
  ELSE LET it == items[i]  o0 == IF it.deferred THEN 0 ELSE open IN
       OpenAtEnd0(items, i + 1, IF it.op = "unwrap" THEN o0 - 1 ELSE IF it.mv = "wrap" THEN o0 + 1 ELSE o0)
RECURSIVE CursorTy(_, _, _)
CursorTy(nodes, t, k) ==
  IF t = "bad" THEN "bad"
  ELSE IF k = 0 THEN TyNodes(nodes, t)
  ELSE IF nodes = <<>> THEN "bad"
  ELSE LET last == nodes[Len(nodes)]
           t1 == TyNodes(SubSeq(nodes, 1, Len(nodes) - 1), t)
       IN  IF ~last.wrapped \/ t1 = "bad" THEN "bad" ELSE CursorTy(last.inner, WrapParam(t1, last.op), k - 1)
PrefixOK(c) == Balanced(c.items, 1, 0) /\ CursorTy(Desugar(c.items), c.start, OpenAtEnd0(c.items, 1, 0)) # "bad"

\* which items extend chain c to an explorable prefix
Extensions(c, alphabet) == {it \in alphabet : PrefixOK([c EXCEPT !.items = Append(c.items, it)])}
WellTyped == TyChain(chain) # "bad"

---------------------------------------------------------------------------
\* exploration: the state graph is the set of well-typed chains of the family
SmallItems ==
  {It("map", "inc"), It("map", "half"), It("and_then", "half"), It("and_then", "chk"), It("filter", "isEven"),
   It("dot", "is_some"), It("dot", "unwrap_or0"), It("dot", "into_iter"), It("dot", "count"), It("then", "idt"), It("then", "rec"),
   It("then", "e10"), It("then", "nop"), It("inspect", "nop"), It("collect", ""), It("find", "isEven"), It("fold", "addAcc"),
   It("filter_map", "half"), It("flatten", ""), It("or", "alt9")}
Shapes == {"closure", "fnpath", "call", "block", "paren", "rettype", "macro", "field", "method", "index", "ref", "ifelse"}
ShapeOps == {"map", "and_then", "filter", "then", "or_else", "map_err", "find_map", "filter_map", "partition", "fold", "try_fold", "find", "inspect"}
Alphabet ==
  CASE Family = "plain" -> PlainItems
    \* (`=> [f][0]` is excluded: a bracket right after `=>` is the collect operator `=>[]` by design)
    [] Family = "shapes" -> {x \in {Shaped(it, sh) : it \in {p \in PlainItems : p.op \in ShapeOps /\ p.arg \notin {"idt", "nop"}}, sh \in Shapes} :
                               ~(x.op = "and_then" /\ x.shape = "index")}
                            \cup {It("collect", ""), It("dot", "count"), It("map", "inc")}
    \* wrappers x block captures (C02 inner chains with captures, C10 exactly-once, C11 hoisting): a small alphabet, longer chains
    [] Family = "capwrap" ->
         LET blk == {Shaped(It("map", "inc"), "block"), Shaped(It("then", "inc"), "block"), Shaped(It("and_then", "half"), "block"),
                     Shaped(It("map", "half"), "block")}
         IN  blk \cup {Wrap(op) : op \in {"map", "and_then", "find_map", "filter_map"}} \cup {Unwrap, Def(Unwrap)}
             \cup {Def(Wrap(op)) : op \in {"map", "and_then"}}
             \cup {It("collect", ""), It("dot", "count"), Def(It("inspect", "nop")), Def(Shaped(It("map", "inc"), "block"))}
    \* C11: block operands on every operator that takes an expression operand, in every step, inside wrappers
    [] Family = "caps" ->
         LET base == {p \in PlainItems : (p.op \in ShapeOps /\ p.arg \notin {"idt", "nop"}) \/ p.op \in {"or", "chain", "zip"}}
             blk == {Shaped(it, "block") : it \in base} \cup {Shaped(it, "block2") : it \in {p \in base : p.op \in {"fold", "try_fold"}}}
         IN  blk \cup {Def(it) : it \in blk} \cup {It("map", "inc"), It("dot", "into_iter"), It("collect", ""), Def(It("inspect", "nop"))}
             \cup {Wrap(op) : op \in {"map", "and_then", "filter_map"}} \cup {Unwrap}
    \* (wrappers are also opened by the first action of a later step: `~=> >>>`, closed explicitly or implicitly there)
    \* C05 / C06 at the level of values: Option / Result chains cut into steps by `~`, with operators that act on failures,
    \* captures and wrappers behind the cuts; meant for the try macros (EvalTry)
    [] Family = "trysteps" ->
         LET base == {p \in PlainItems : p.op \in {"map", "and_then", "or", "or_else", "map_err", "then", "inspect", "filter"}}
             blk  == {Shaped(It("map", "inc"), "block"), Shaped(It("or_else", "mk9"), "block"), Shaped(It("then", "idt"), "block"),
                      Shaped(It("or", "alt9"), "block"), Shaped(It("map_err", "e10"), "block")}
         IN  base \cup {Def(it) : it \in base} \cup blk \cup {Def(it) : it \in blk}
             \cup {Wrap("map"), Wrap("and_then"), Def(Wrap("map")), Def(Wrap("and_then")), Unwrap}
    \* deep nesting: runs of `<<<` followed by operators that apply to the outer value again (each `<<<` closes exactly one level)
    [] Family = "unwraps" -> {Wrap("map"), Wrap("and_then"), Wrap("filter_map"), Unwrap, It("map", "inc"), It("dot", "is_some"), It("filter", "isEven"),
                              It("dot", "count"), It("collect", ""), Def(It("map", "inc")), It("then", "idt")}
    [] Family = "wrap"  -> SmallItems \cup WrapItems \cup {Def(it) : it \in {It("map", "inc"), It("inspect", "nop"), It("dot", "is_some")}}
                           \cup {Def(Wrap(op)) : op \in {"map", "and_then", "filter_map", "inspect"}}

Init == chain \in {[start |-> t, items |-> <<>>] : t \in IF Family \in {"capwrap", "unwraps"} THEN {"OOI", "ItOI", "ItI", "OI"}
                                                        ELSE IF Family = "trysteps" THEN {"OI", "RI", "OOI"} ELSE StartTypes}
Next == /\ Len(chain.items) < MaxLen
        /\ \E it \in Extensions(chain, Alphabet) :
              /\ (Family = "wrap" => (Len(chain.items) > 0 \/ it.mv = "wrap" \/ TRUE))
              /\ chain' = [chain EXCEPT !.items = Append(chain.items, it)]
Spec == Init /\ [][Next]_svars

\* (A) type safety: evaluating a well-typed chain on any input of its start type never gets stuck
\* (every CASE of Apply1 is defined) and yields a value of the declared type.
TyOfVal(v) ==
  CASE v.t = "i" -> {"I"} [] v.t = "b" -> {"B"} [] v.t = "unit" -> {"U"}
    [] v.t = "some" -> {"OI", "OOI", "OP"} [] v.t = "none" -> {"OI", "OOI", "OP"}
    [] v.t \in {"ok", "err"} -> {"RI"}
    [] v.t = "seq" -> {"ItI", "ItOI", "ItP", "ItEP", "VI", "VOI", "VP", "VEP"}
    [] v.t = "pair" -> {"VV", "P", "EP"}
TypeSafety ==
  WellTyped => \A x \in Inputs(chain.start) : TyChain(chain) \in TyOfVal(Eval(chain, x).v)

\* (A) `??` passes its value through: removing every inspect item changes no value
NoInspect(c) == [c EXCEPT !.items = SelectSeq(c.items, LAMBDA it : ~(it.op = "inspect" /\ it.mv = "none" /\ ~it.deferred))]
PassThrough ==
  (WellTyped /\ TyChain(NoInspect(chain)) = TyChain(chain)) =>
     \A x \in Inputs(chain.start) : Eval(NoInspect(chain), x).v = Eval(chain, x).v

\* (A) implicit closing equals explicit closing: appending `<<<` for every wrapper still open at
\* the end changes neither value nor calls
RECURSIVE OpenAtEnd(_, _, _)
OpenAtEnd(items, i, open) ==
  IF i > Len(items) THEN open
  ELSE LET it == items[i]  o0 == IF it.deferred THEN 0 ELSE open IN
       OpenAtEnd(items, i + 1, IF it.op = "unwrap" THEN o0 - 1 ELSE IF it.mv = "wrap" THEN o0 + 1 ELSE o0)
RECURSIVE CloseN(_, _)
CloseN(items, n) == IF n = 0 THEN items ELSE CloseN(Append(items, Unwrap), n - 1)
ImplicitClose ==
  LET n == OpenAtEnd(chain.items, 1, 0)
      c2 == [chain EXCEPT !.items = CloseN(chain.items, n)]
  IN  (WellTyped /\ n > 0) => \A x \in Inputs(chain.start) : Eval(c2, x) = Eval(chain, x)

\* emission: one line per chain with the expectation for every input
Expect(c) == {[inp |-> x, out |-> Eval(c, x)] : x \in Inputs(c.start)}
InputJson(x) == IF x.t = "iter" THEN Sq(x.v.src) ELSE x
EmitChain ==
  (Len(chain.items) > 0 /\ WellTyped) =>
     PrintT(<<"CHAIN", ToJson([start |-> chain.start, items |-> chain.items, ty |-> TyChain(chain),
                                sites |-> SiteTys(Desugar(chain.items), chain.start), tree |-> Desugar(chain.items),
                                cases |-> {[inp |-> InputJson(e.inp), v |-> e.out.v, calls |-> e.out.calls] : e \in Expect(chain)},
                                \* expectation under a try macro (differs from `cases` only if there is a later step)
                                tcases |-> IF HasDeferred(chain)
                                           THEN {LET o == EvalTry(chain, x) IN [inp |-> InputJson(x), v |-> o.v, calls |-> o.calls] : x \in Inputs(chain.start)}
                                           ELSE {}])>>)
=============================================================================
