----------------------------- MODULE TraceNames -----------------------------
(* The invariants of JoinNames evaluated on the names returned by the real constructors   *)
(* (harness/libdrv `names`): injectivity per family, pairwise disjointness.               *)
EXTENDS Integers, Sequences, FiniteSets, TLC, Json, IOUtils

Obs == ndJsonDeserialize(IOEnv.TRACE)[1]
SeqSet(q) == {q[i] : i \in 1 .. Len(q)}
EWNames == {Obs.ew[k][4] : k \in 1 .. Len(Obs.ew)}
Fams == <<SeqSet(Obs.v), SeqSet(Obs.sr), SeqSet(Obs.r), SeqSet(Obs.j), EWNames, SeqSet(Obs.fixed)>>
RealInjective ==
  /\ Cardinality(SeqSet(Obs.v)) = Len(Obs.v) /\ Cardinality(SeqSet(Obs.sr)) = Len(Obs.sr)
  /\ Cardinality(SeqSet(Obs.r)) = Len(Obs.r) /\ Cardinality(SeqSet(Obs.j)) = Len(Obs.j)
  /\ Cardinality(EWNames) = Len(Obs.ew)
RealDisjoint == \A a, b \in 1 .. Len(Fams) : a < b => Fams[a] \cap Fams[b] = {}
VARIABLE dummy
Init == dummy = 0
Next == UNCHANGED dummy
Spec == Init /\ [][Next]_dummy
RealNamesOK == RealInjective /\ RealDisjoint
=============================================================================
