---------------------------- MODULE TraceExpand ----------------------------
(* Recorded expansion histories (thread, input index, hash of the output string) must be behaviours *)
(* of JoinExpand's memo: the first observation of an input defines its output, every later one must *)
(* return the same.  One file holds many histories separated by `reset` lines.                      *)
EXTENDS Integers, Sequences, TLC, Json, IOUtils

Rec == ndJsonDeserialize(IOEnv.TRACE)
VARIABLES memo, l
Init == l = 1 /\ memo = <<>>
Lookup(i) == LET m == {k \in 1 .. Len(memo) : memo[k].i = i} IN IF m = {} THEN "" ELSE memo[CHOOSE k \in m : TRUE].h
Next ==
  /\ l <= Len(Rec)
  /\ l' = l + 1
  /\ LET r == Rec[l] IN
     IF r.ev = "reset" THEN memo' = <<>>
     ELSE /\ (Lookup(r.i) = "" \/ Lookup(r.i) = r.h)
          /\ memo' = IF Lookup(r.i) = "" THEN Append(memo, [i |-> r.i, h |-> r.h]) ELSE memo
Spec == Init /\ [][Next]_<<memo, l>>
Accepted ==
  LET d == TLCGet("stats").diameter IN
  IF d - 1 = Len(Rec) THEN TRUE ELSE PrintT(<<"HIST_REJECTED", d, ToJson(Rec[d])>>) /\ FALSE
=============================================================================
