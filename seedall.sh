#!/bin/bash
# Re-runs every stored seeded change against the quick check of the property it was written for.
# /repo must be clean; results: work/smoke/seedall.log (one line per seed).  Evidence files are restored afterwards.
cd /verif
[ -n "$(git -C /repo status --porcelain)" ] && { echo "needs a clean /repo"; exit 2; }
OUT=work/smoke/seedall.log; : > $OUT
for d in seeded/*/; do
  n=$(basename $d); p=${n%%-*}
  git -C /repo apply /verif/$d/patch.diff 2>/dev/null || { echo "$n patch does not apply" >> $OUT; continue; }
  ./check $p --tier quick > /tmp/sa_$n.log 2>&1; rc=$?
  git -C /repo checkout -- .
  echo "$n check=$p exit=$rc $(grep -m1 -A1 VIOLATION /tmp/sa_$n.log | tail -1 | cut -c1-160)" >> $OUT
done
git checkout -- evidence
grep -c "exit=1" $OUT; grep -v "exit=1" $OUT
