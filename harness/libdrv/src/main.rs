//! Library-level driver over join_impl: parse / expand / names / purity.
//! Reads JSON lines on stdin, writes one JSON line per request on stdout.
//!
//! Built three times with different features so that a refactoring of join_impl's internal surface only
//! disables the checks that look at that surface:
//!   libdrv   (no feature)  expand / hash / concurrent / turns / valid: generate_join, Config, JoinInputDefault only
//!   parsedrv (`parse`)     + parse: dumps the parsed chain structure (chain / group / handler enums)
//!   namesdrv (`names`)     + names: calls the name constructors
#[cfg(feature = "parse")]
use join_impl::chain::expr::{ActionExpr, ErrExpr, InitialExpr, ProcessExpr};
#[cfg(feature = "parse")]
use join_impl::chain::group::{ApplicationType, MoveType};
#[cfg(feature = "parse")]
use join_impl::chain::Chain;
#[cfg(feature = "parse")]
use join_impl::handler::Handler;
#[cfg(feature = "names")]
use join_impl::join::name_constructors as nc;
use join_impl::{generate_join, Config, JoinInputDefault};
use proc_macro2::TokenStream;
use quote::ToTokens;
use serde_json::{json, Value};
use std::io::{BufRead, Write};
use std::str::FromStr;
use std::sync::atomic::{AtomicU64, Ordering};
use std::sync::Arc;

#[allow(dead_code)]
fn ts(x: &impl ToTokens) -> String {
    x.to_token_stream().to_string()
}

#[cfg(feature = "parse")]
fn member_json(expr: &ActionExpr) -> (String, Vec<String>) {
    match expr {
        ActionExpr::Initial(InitialExpr::Single([e])) => ("Initial".into(), vec![ts(e)]),
        ActionExpr::Err(e) => match e {
            ErrExpr::Or([x]) => ("Or".into(), vec![ts(x)]),
            ErrExpr::OrElse([x]) => ("OrElse".into(), vec![ts(x)]),
            ErrExpr::MapErr([x]) => ("MapErr".into(), vec![ts(x)]),
        },
        ActionExpr::Process(p) => match p {
            ProcessExpr::Map([x]) => ("Map".into(), vec![ts(x)]),
            ProcessExpr::Then([x]) => ("Then".into(), vec![ts(x)]),
            ProcessExpr::AndThen([x]) => ("AndThen".into(), vec![ts(x)]),
            ProcessExpr::Filter([x]) => ("Filter".into(), vec![ts(x)]),
            ProcessExpr::FindMap([x]) => ("FindMap".into(), vec![ts(x)]),
            ProcessExpr::Flatten => ("Flatten".into(), vec![]),
            ProcessExpr::Inspect([x]) => ("Inspect".into(), vec![ts(x)]),
            ProcessExpr::Dot([x]) => ("Dot".into(), vec![ts(x)]),
            ProcessExpr::Chain([x]) => ("Chain".into(), vec![ts(x)]),
            ProcessExpr::Collect(t) => (
                "Collect".into(),
                t.as_ref().map(|[t]| vec![ts(t)]).unwrap_or_default(),
            ),
            ProcessExpr::Enumerate => ("Enumerate".into(), vec![]),
            ProcessExpr::FilterMap([x]) => ("FilterMap".into(), vec![ts(x)]),
            ProcessExpr::Find([x]) => ("Find".into(), vec![ts(x)]),
            ProcessExpr::Fold([a, b]) => ("Fold".into(), vec![ts(a), ts(b)]),
            ProcessExpr::Partition([x]) => ("Partition".into(), vec![ts(x)]),
            ProcessExpr::TryFold([a, b]) => ("TryFold".into(), vec![ts(a), ts(b)]),
            ProcessExpr::Unzip(t) => (
                "Unzip".into(),
                t.as_ref()
                    .map(|[a, b, c, d]| vec![ts(a), ts(b), ts(c), ts(d)])
                    .unwrap_or_default(),
            ),
            ProcessExpr::Zip([x]) => ("Zip".into(), vec![ts(x)]),
            ProcessExpr::UNWRAP => ("UNWRAP".into(), vec![]),
        },
    }
}

#[cfg(feature = "parse")]
fn dump(j: &JoinInputDefault) -> Value {
    let branches: Vec<Value> = j
        .branches
        .iter()
        .map(|c| {
            let members: Vec<Value> = c
                .members()
                .iter()
                .map(|m| {
                    let (v, ops) = member_json(m.expr());
                    json!({
                        "op": v,
                        "deferred": *m.application_type() == ApplicationType::Deferred,
                        "mv": match m.move_type() { MoveType::None => "none", MoveType::Wrap => "wrap", MoveType::Unwrap => "unwrap" },
                        "operands": ops,
                    })
                })
                .collect();
            let pat = c.id().map(|p| {
                json!({"ident": p.ident.to_string(), "mutable": p.mutability.is_some(), "byref": p.by_ref.is_some()})
            });
            json!({"let": pat, "members": members})
        })
        .collect();
    let handler = j.handler.as_ref().map(|h| match h {
        Handler::Map(e) => json!({"kind":"map","expr":ts(e)}),
        Handler::Then(e) => json!({"kind":"then","expr":ts(e)}),
        Handler::AndThen(e) => json!({"kind":"and_then","expr":ts(e)}),
    });
    json!({
        "branches": branches,
        "handler": handler,
        "futures_crate_path": j.futures_crate_path.as_ref().map(|p| ts(p)),
        "custom_joiner": j.custom_joiner.as_ref().map(|p| p.to_string()),
        "transpose_results": j.transpose_results,
        "lazy_branches": j.lazy_branches,
    })
}

fn panic_msg(e: Box<dyn std::any::Any + Send>) -> String {
    if let Some(s) = e.downcast_ref::<&str>() {
        s.to_string()
    } else if let Some(s) = e.downcast_ref::<String>() {
        s.clone()
    } else {
        "?".into()
    }
}

fn cfg_of(v: &Value) -> Config {
    Config {
        is_async: v[0].as_bool().unwrap_or(false),
        is_try: v[1].as_bool().unwrap_or(false),
        is_spawn: v[2].as_bool().unwrap_or(false),
    }
}

/// Lex + parse; Err(class,msg) on failure.
fn parse_input(text: &str) -> Result<JoinInputDefault, (String, String)> {
    let tokens = match std::panic::catch_unwind(|| TokenStream::from_str(text)) {
        Ok(Ok(t)) => t,
        Ok(Err(e)) => return Err(("lex_error".into(), format!("{:?}", e))),
        Err(e) => return Err(("panic".into(), panic_msg(e))),
    };
    match std::panic::catch_unwind(move || syn::parse2::<JoinInputDefault>(tokens)) {
        Ok(Ok(j)) => Ok(j),
        Ok(Err(e)) => Err(("syn_error".into(), e.to_string())),
        Err(e) => Err(("panic".into(), panic_msg(e))),
    }
}

fn expand(text: &str, cfg: &Value, want_out: bool) -> Value {
    let j = match parse_input(text) {
        Ok(j) => j,
        Err((c, m)) => return json!({"class": c, "msg": m}),
    };
    let cfgv = cfg.clone();
    let r = std::panic::catch_unwind(std::panic::AssertUnwindSafe(|| {
        generate_join(&j, cfg_of(&cfgv)).to_string()
    }));
    match r {
        Ok(out) => {
            let reparse = TokenStream::from_str(&out)
                .ok()
                .map(|t| syn::parse2::<syn::Expr>(t).is_ok())
                .unwrap_or(false);
            if want_out {
                json!({"class":"ok","reparse":reparse,"out":out})
            } else {
                json!({"class":"ok","reparse":reparse,"len":out.len()})
            }
        }
        Err(e) => {
            let m = panic_msg(e);
            // JoinOutput::new's documented configuration rejections reach the user as a
            // panic of `.unwrap()` on an Err(&'static str): a compile error with that message.
            let class = if m.contains("called `Result::unwrap()` on an `Err` value") {
                "config_reject"
            } else {
                "panic"
            };
            json!({"class":class,"msg":m})
        }
    }
}

fn fnv(s: &str) -> u64 {
    let mut h: u64 = 0xcbf29ce484222325;
    for b in s.as_bytes() {
        h ^= *b as u64;
        h = h.wrapping_mul(0x100000001b3);
    }
    h
}

fn handle(req: &Value) -> Value {
    let cmd = req["cmd"].as_str().unwrap_or("");
    let mut out = match cmd {
        #[cfg(feature = "parse")]
        "parse" => match parse_input(req["input"].as_str().unwrap_or("")) {
            Ok(j) => json!({"class":"ok","dump":dump(&j)}),
            Err((c, m)) => json!({"class":c,"msg":m}),
        },
        "expand" => expand(
            req["input"].as_str().unwrap_or(""),
            &req["cfg"],
            req["want_out"].as_bool().unwrap_or(false),
        ),
        "phases" => {
            // One thread, two phases: every input is parsed first, then every parsed invocation is generated (in the given order,
            // then in reverse).  The generator is a function of the parsed invocation and the configuration: what was parsed in
            // between must not matter.  Returns one hash per (pass, input).
            let inputs: Vec<(String, Value)> = req["inputs"]
                .as_array()
                .map(|a| a.iter().map(|x| (x["input"].as_str().unwrap_or("").to_string(), x["cfg"].clone())).collect())
                .unwrap_or_default();
            let parsed: Vec<_> = inputs.iter().map(|(t, _)| parse_input(t)).collect();
            let gen = |k: usize| -> String {
                match &parsed[k] {
                    Err((_, m)) => format!("{:016x}", fnv(m)),
                    Ok(j) => {
                        let cfgv = inputs[k].1.clone();
                        match std::panic::catch_unwind(std::panic::AssertUnwindSafe(|| generate_join(j, cfg_of(&cfgv)).to_string())) {
                            Ok(o) => format!("{:016x}", fnv(&o)),
                            Err(e) => format!("{:016x}", fnv(&panic_msg(e))),
                        }
                    }
                }
            };
            let mut evs = Vec::new();
            for k in 0..inputs.len() {
                evs.push(json!({"i": k, "h": gen(k)}));
            }
            for k in (0..inputs.len()).rev() {
                evs.push(json!({"i": k, "h": gen(k)}));
            }
            json!({"events": evs})
        }
        "hash" => {
            // expansion reduced to a hash of its string form (purity checks)
            let v = expand(req["input"].as_str().unwrap_or(""), &req["cfg"], true);
            match v["out"].as_str() {
                Some(o) => json!({"class":"ok","hash":format!("{:016x}", fnv(o)),"len":o.len()}),
                None => json!({"class":v["class"],"hash":format!("{:016x}", fnv(v["msg"].as_str().unwrap_or(""))),"len":0}),
            }
        }
        #[cfg(feature = "names")]
        "names" => {
            let n = req["n"].as_u64().unwrap_or(25) as usize;
            let mut fam = serde_json::Map::new();
            fam.insert("v".into(), json!((0..n).map(|i| nc::construct_var_name(i).to_string()).collect::<Vec<_>>()));
            fam.insert("sr".into(), json!((0..n).map(|i| nc::construct_step_results_name(i).to_string()).collect::<Vec<_>>()));
            fam.insert("r".into(), json!((0..n).map(|i| nc::construct_result_name(i).to_string()).collect::<Vec<_>>()));
            fam.insert("j".into(), json!((0..n).map(|i| nc::construct_thread_builder_name(i).to_string()).collect::<Vec<_>>()));
            let m = req["m"].as_u64().unwrap_or(n as u64) as usize;
            let mut ew = Vec::new();
            for a in 0..m {
                for b in 0..m {
                    for c in 0..3usize {
                        ew.push(json!([a, b, c, nc::construct_expr_wrapper_name(a, b, c).to_string()]));
                    }
                }
            }
            fam.insert("ew".into(), json!(ew));
            fam.insert(
                "fixed".into(),
                json!([
                    nc::construct_inspect_fn_name().to_string(),
                    nc::construct_spawn_tokio_fn_name().to_string(),
                    nc::construct_results_name().to_string(),
                    nc::construct_handler_name().to_string(),
                    nc::construct_internal_value_name().to_string(),
                    nc::construct_thread_builder_fn_name().to_string(),
                ]),
            );
            Value::Object(fam)
        }
        "concurrent" => {
            // Unsynchronised concurrent expansions: every thread expands every input `reps` times.
            let inputs: Vec<(String, Value)> = req["inputs"]
                .as_array()
                .map(|a| a.iter().map(|x| (x["input"].as_str().unwrap_or("").to_string(), x["cfg"].clone())).collect())
                .unwrap_or_default();
            let threads = req["threads"].as_u64().unwrap_or(4) as usize;
            let reps = req["reps"].as_u64().unwrap_or(2) as usize;
            let inputs = Arc::new(inputs);
            let seq = Arc::new(AtomicU64::new(0));
            let hs: Vec<_> = (0..threads)
                .map(|t| {
                    let inputs = inputs.clone();
                    let seq = seq.clone();
                    std::thread::spawn(move || {
                        let mut evs = Vec::new();
                        for r in 0..reps {
                            for k in 0..inputs.len() {
                                // every thread walks the inputs in a different rotation
                                let i = (k * (t + 1) + r + t) % inputs.len();
                                let (inp, cfg) = &inputs[i];
                                let s0 = seq.fetch_add(1, Ordering::SeqCst);
                                let v = expand(inp, cfg, true);
                                let h = match v["out"].as_str() {
                                    Some(o) => format!("{:016x}", fnv(o)),
                                    None => format!("E{:016x}", fnv(v["msg"].as_str().unwrap_or(""))),
                                };
                                let s1 = seq.fetch_add(1, Ordering::SeqCst);
                                evs.push(json!({"t":t,"i":i,"h":h,"s0":s0,"s1":s1}));
                            }
                        }
                        evs
                    })
                })
                .collect();
            let mut all = Vec::new();
            for h in hs {
                all.extend(h.join().unwrap());
            }
            all.sort_by_key(|e| e["s1"].as_u64().unwrap());
            json!({"events": all})
        }
        "turns" => {
            // Real threads take turns in the given global order [[thread, input index], ..] (1-based).
            let inputs: Vec<(String, Value)> = req["inputs"]
                .as_array()
                .map(|a| a.iter().map(|x| (x["input"].as_str().unwrap_or("").to_string(), x["cfg"].clone())).collect())
                .unwrap_or_default();
            let order: Vec<(usize, usize)> = req["order"]
                .as_array()
                .map(|a| a.iter().map(|p| (p[0].as_u64().unwrap() as usize, p[1].as_u64().unwrap() as usize)).collect())
                .unwrap_or_default();
            let threads = order.iter().map(|p| p.0).max().unwrap_or(1);
            let inputs = Arc::new(inputs);
            let order = Arc::new(order);
            let turn = Arc::new((std::sync::Mutex::new(0usize), std::sync::Condvar::new()));
            let events = Arc::new(std::sync::Mutex::new(Vec::new()));
            let hs: Vec<_> = (1..=threads)
                .map(|t| {
                    let (inputs, order, turn, events) = (inputs.clone(), order.clone(), turn.clone(), events.clone());
                    std::thread::spawn(move || {
                        for (k, (tt, i)) in order.iter().enumerate() {
                            if *tt != t {
                                continue;
                            }
                            let (m, cv) = &*turn;
                            let mut g = m.lock().unwrap();
                            while *g != k {
                                g = cv.wait(g).unwrap();
                            }
                            let (inp, cfg) = &inputs[(*i - 1) % inputs.len()];
                            let v = expand(inp, cfg, true);
                            let h = match v["out"].as_str() {
                                Some(o) => format!("{:016x}", fnv(o)),
                                None => format!("E{:016x}", fnv(v["msg"].as_str().unwrap_or(""))),
                            };
                            events.lock().unwrap().push(json!({"ev":"x","t":t,"i":*i,"h":h}));
                            *g += 1;
                            cv.notify_all();
                        }
                    })
                })
                .collect();
            for h in hs {
                let _ = h.join();
            }
            let evs = events.lock().unwrap().clone();
            json!({"events": evs})
        }
        "valid" => {
            // does this token text parse as Expr / Type ? (operand catalogue cross-check)
            let text = req["input"].as_str().unwrap_or("");
            let t = TokenStream::from_str(text);
            match t {
                Ok(t) => json!({
                    "expr": syn::parse2::<syn::Expr>(t.clone()).is_ok(),
                    "type": syn::parse2::<syn::Type>(t).is_ok(),
                }),
                Err(_) => json!({"expr":false,"type":false,"lex":false}),
            }
        }
        _ => json!({"class":"bad_request"}),
    };
    if let Some(id) = req.get("id") {
        out.as_object_mut().unwrap().insert("id".into(), id.clone());
    }
    out
}

fn main() {
    std::panic::set_hook(Box::new(|_| {}));
    let progress = Arc::new(AtomicU64::new(0));
    let busy = Arc::new(AtomicU64::new(0));
    {
        // watchdog: a single request that takes longer than 20 s is reported as a hang
        let progress = progress.clone();
        let busy = busy.clone();
        std::thread::spawn(move || {
            let mut last = 0u64;
            let mut stale = 0;
            loop {
                std::thread::sleep(std::time::Duration::from_secs(2));
                let p = progress.load(Ordering::SeqCst);
                if busy.load(Ordering::SeqCst) == 1 && p == last {
                    stale += 1;
                    if stale >= 10 {
                        println!("{}", json!({"class":"hang","at":p}));
                        std::process::exit(3);
                    }
                } else {
                    stale = 0;
                    last = p;
                }
            }
        });
    }
    let stdin = std::io::stdin();
    let stdout = std::io::stdout();
    let mut out = std::io::BufWriter::new(stdout.lock());
    for line in stdin.lock().lines() {
        let line = match line {
            Ok(l) => l,
            Err(_) => break,
        };
        if line.trim().is_empty() {
            continue;
        }
        let req: Value = match serde_json::from_str(&line) {
            Ok(v) => v,
            Err(_) => {
                writeln!(out, "{}", json!({"class":"bad_json"})).unwrap();
                continue;
            }
        };
        busy.store(1, Ordering::SeqCst);
        let resp = handle(&req);
        busy.store(0, Ordering::SeqCst);
        progress.fetch_add(1, Ordering::SeqCst);
        writeln!(out, "{}", resp).unwrap();
    }
    out.flush().unwrap();
}
