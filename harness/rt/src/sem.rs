//! Callback library and canonical values of the sem engine (JoinSem.tla).  Every
//! primitive exists once in TLA+ (CB / ValOf) and once here; each invocation logs
//! `{site, cb, arg}` into a thread-local call trace.
use serde_json::{json, Value};
use std::sync::Mutex;

// global (not thread-local): callbacks of thread-spawning macros run on other threads
static CALLS: Mutex<Vec<Value>> = Mutex::new(Vec::new());
fn calls() -> std::sync::MutexGuard<'static, Vec<Value>> {
    CALLS.lock().unwrap_or_else(|e| e.into_inner())
}
static TICKS: std::sync::atomic::AtomicI64 = std::sync::atomic::AtomicI64::new(0);
pub fn reset() {
    calls().clear();
    TICKS.store(0, std::sync::atomic::Ordering::SeqCst);
}
/// capture mode: a closure operand bumps the caller's local it captured by reference, and the global count
pub fn tick(c: &std::cell::Cell<i64>) {
    c.set(c.get() + 1);
    TICKS.fetch_add(1, std::sync::atomic::Ordering::SeqCst);
}
/// try macros stop at the end of a failed step: the canonical value of a failure, if `v` is one
pub trait Carrier: Canon {
    fn failed(&self) -> bool;
}
impl<T: Canon> Carrier for Option<T> {
    fn failed(&self) -> bool {
        self.is_none()
    }
}
impl<T: Canon, E: Canon> Carrier for Result<T, E> {
    fn failed(&self) -> bool {
        self.is_err()
    }
}
pub fn abort<C: Carrier>(v: &C) -> Option<Value> {
    if v.failed() {
        Some(v.canon())
    } else {
        None
    }
}
/// hygiene probe: reads a caller local with a plausible name
pub fn touch(_c: &std::cell::Cell<i64>) {}
/// every tick must have reached the caller's own local
pub fn same_ticks(c: &std::cell::Cell<i64>) {
    let g = TICKS.load(std::sync::atomic::Ordering::SeqCst);
    if c.get() != g {
        panic!("closure operands updated a copy of the local they capture by reference: local sees {} of {} calls", c.get(), g);
    }
}
pub fn take_calls() -> Vec<Value> {
    std::mem::take(&mut *calls())
}
fn call(site: u32, cb: &str, arg: Value) {
    calls().push(json!({"site": site, "cb": cb, "arg": arg}));
}

/// canonical value: `{"t": tag, "v": payload}` exactly as JoinSem builds values
pub trait Canon {
    fn canon(&self) -> Value;
}
impl Canon for i64 {
    fn canon(&self) -> Value {
        json!({"t":"i","v":self})
    }
}
impl Canon for usize {
    fn canon(&self) -> Value {
        json!({"t":"i","v":self})
    }
}
impl Canon for bool {
    fn canon(&self) -> Value {
        json!({"t":"b","v":self})
    }
}
impl Canon for () {
    fn canon(&self) -> Value {
        json!({"t":"unit","v":0})
    }
}
impl<T: Canon> Canon for Option<T> {
    fn canon(&self) -> Value {
        match self {
            Some(x) => json!({"t":"some","v":x.canon()}),
            None => json!({"t":"none","v":0}),
        }
    }
}
impl<T: Canon, E: Canon> Canon for Result<T, E> {
    fn canon(&self) -> Value {
        match self {
            Ok(x) => json!({"t":"ok","v":x.canon()}),
            Err(e) => json!({"t":"err","v":e.canon()}),
        }
    }
}
impl<T: Canon> Canon for Vec<T> {
    fn canon(&self) -> Value {
        json!({"t":"seq","v":self.iter().map(|x| x.canon()).collect::<Vec<_>>()})
    }
}
impl<A: Canon, B: Canon> Canon for (A, B) {
    fn canon(&self) -> Value {
        json!({"t":"pair","v":[self.0.canon(), self.1.canon()]})
    }
}
impl<T: Canon> Canon for &T {
    fn canon(&self) -> Value {
        (*self).canon()
    }
}
pub fn canon<T: Canon>(x: &T) -> Value {
    x.canon()
}
/// consume an iterator and canonicalise what it yields (its callbacks run now)
pub fn drain<I: Iterator>(it: I) -> Value
where
    I::Item: Canon,
{
    let v: Vec<Value> = it.map(|x| x.canon()).collect();
    json!({"t":"seq","v":v})
}
fn iter_tag() -> Value {
    json!({"t":"iter","v":0})
}

// ---- primitives (names as in JoinSem.CB) -----------------------------------
pub fn inc(site: u32, x: i64) -> i64 {
    call(site, "inc", x.canon());
    x + 1
}
pub fn dbl(site: u32, x: i64) -> i64 {
    call(site, "dbl", x.canon());
    x * 2
}
pub fn half(site: u32, x: i64) -> Option<i64> {
    call(site, "half", x.canon());
    if x % 2 == 0 {
        Some(x / 2)
    } else {
        None
    }
}
pub fn chk(site: u32, x: i64) -> Result<i64, i64> {
    call(site, "chk", x.canon());
    if x < 3 {
        Ok(x)
    } else {
        Err(x)
    }
}
pub fn is_even(site: u32, x: &i64) -> bool {
    call(site, "isEven", x.canon());
    *x % 2 == 0
}
pub fn is_some(site: u32, x: &Option<i64>) -> bool {
    call(site, "isSome", x.canon());
    x.is_some()
}
pub fn mk9(site: u32) -> Option<i64> {
    call(site, "mk9", ().canon());
    Some(9)
}
pub fn rec(site: u32, e: i64) -> Result<i64, i64> {
    call(site, "rec", e.canon());
    Ok(e + 1)
}
pub fn refail(site: u32, e: i64) -> Result<i64, i64> {
    call(site, "refail", e.canon());
    Err(e + 1)
}
pub fn e10(site: u32, e: i64) -> i64 {
    call(site, "e10", e.canon());
    e + 10
}
pub fn psum(site: u32, a: i64, b: i64) -> i64 {
    call(site, "psum", (a, b).canon());
    a + b
}
pub fn esum(site: u32, a: usize, b: i64) -> i64 {
    call(site, "psum", (a, b).canon());
    a as i64 + b
}
pub fn add_acc(site: u32, acc: i64, x: i64) -> i64 {
    call(site, "addAcc", (acc, x).canon());
    acc + x
}
pub fn try_acc(site: u32, acc: i64, x: i64) -> Option<i64> {
    call(site, "tryAcc", (acc, x).canon());
    if x < 3 {
        Some(acc + x)
    } else {
        None
    }
}
pub fn nop<T: Canon>(site: u32, x: &T) {
    call(site, "nop", x.canon());
}
/// `??` on an iterator in a sync macro: the callback sees the iterator itself by reference
pub fn nop_iter<T>(site: u32, _x: &T) {
    call(site, "nop", iter_tag());
}
pub fn idt<T: Canon>(site: u32, x: T) -> T {
    call(site, "idt", x.canon());
    x
}
pub fn idt_iter<T>(site: u32, x: T) -> T {
    call(site, "idt", iter_tag());
    x
}
pub fn wrap_some(site: u32, x: i64) -> Option<i64> {
    call(site, "wrapSome", x.canon());
    Some(x)
}
// by-value operands
pub fn alt9() -> Option<i64> {
    Some(9)
}
pub fn alt_none() -> Option<i64> {
    None
}
pub fn alt_ok9() -> Result<i64, i64> {
    Ok(9)
}
pub fn alt_err7() -> Result<i64, i64> {
    Err(7)
}
pub fn iter2() -> std::vec::IntoIter<i64> {
    vec![7i64, 8, 9, 10, 11].into_iter()
}
pub fn iter_l() -> std::vec::IntoIter<i64> {
    (101i64..=124).collect::<Vec<i64>>().into_iter()
}
/// operand shape "call": a call expression whose value is the callback (its evaluation is logged: C01, where and how
/// often an operand expression is evaluated)
pub fn ret<F>(site: u32, f: F) -> F {
    call(site, "opnd", 0i64.canon());
    f
}
/// operand shapes "field" / "method": a field access / method call whose value is the callback
pub struct Holder<F> {
    pub f: F,
}
impl<F> Holder<F> {
    pub fn get(self) -> F {
        self.f
    }
}
pub fn hold<F>(site: u32, f: F) -> Holder<F> {
    call(site, "opnd", 0i64.canon());
    Holder { f }
}
/// variant `mirror`: values of the sibling branches (silent), and the check of their final values
pub fn sib(j: i64, step: i64) -> i64 {
    100 * j + step
}
pub fn sib_check(j: i64, got: &Option<i64>, want: Option<i64>) {
    if got != &want {
        call(9000 + j as u32, "sibling", got.unwrap_or(-1).canon());
    }
}
/// operand shape "ifelse": an `if` expression whose value is the callback
pub fn yes(site: u32) -> bool {
    call(site, "opnd", 0i64.canon());
    true
}
/// nesting positions "init" / "opnd": the expression written in front of a nested macro invocation; nothing of the
/// nested invocation may have run when it is evaluated
pub fn first<T>(v: T) -> T {
    if !calls().is_empty() {
        panic!("a nested macro invocation was evaluated before the expression written in front of it");
    }
    v
}
/// operand shape "macro": a macro invocation whose value is the callback
#[macro_export]
macro_rules! clos {
    ($e:expr) => {
        $e
    };
}

/// main loop of generated sem binaries: table of (name, number of inputs, macro fn, twin fn)
pub fn main_loop(table: &[(&str, usize, fn(usize) -> Value, fn(usize) -> Value)]) {
    use std::io::Write;
    crate::quiet_panics();
    let args: Vec<String> = std::env::args().collect();
    let mut out = std::io::BufWriter::new(std::fs::File::create(&args[1]).expect("out"));
    for (name, n, m, t) in table {
        for k in 0..*n {
            reset();
            let mv = std::panic::catch_unwind(|| m(k));
            let mcalls = take_calls();
            reset();
            let tv = std::panic::catch_unwind(|| t(k));
            let tcalls = take_calls();
            let mvj = mv.unwrap_or_else(|e| json!({"t":"panic","v":crate::panic_message(&*e)}));
            let tvj = tv.unwrap_or_else(|e| json!({"t":"panic","v":crate::panic_message(&*e)}));
            writeln!(out, "{}", json!({"id": name, "k": k, "mv": mvj, "mcalls": mcalls, "tv": tvj, "tcalls": tcalls})).unwrap();
        }
    }
    out.flush().unwrap();
}

/// `..count_i()` / `..len_i()`: count and len as i64 (the chain's scalar type)
pub trait Ext {
    fn count_i(self) -> i64;
}
impl<I: Iterator> Ext for I {
    fn count_i(self) -> i64 {
        self.count() as i64
    }
}
pub trait VecExt {
    fn len_i(&self) -> i64;
}
impl<T> VecExt for Vec<T> {
    fn len_i(&self) -> i64 {
        self.len() as i64
    }
}

/// evaluation of a block operand (C11): logs which operand of which item was evaluated
pub fn cap(site: u32, operand: i64) -> MoveOnly {
    call(site, "cap", operand.canon());
    MoveOnly(())
}
/// what a block capture hands to its closure: neither Clone nor Copy
pub struct MoveOnly(());
impl MoveOnly {
    pub fn keep(&self) {}
}

/// Drives a future produced by `mk` on a fresh current-thread tokio runtime on its own OS thread, so that
/// task-spawning async macros can be nested inside each other (a runtime cannot be entered from a runtime).
pub fn on_tokio<T, Fut, F>(mk: F) -> T
where
    T: Send,
    Fut: std::future::Future<Output = T>,
    F: FnOnce() -> Fut + Send,
{
    std::thread::scope(|s| {
        s.spawn(move || {
            tokio::runtime::Builder::new_current_thread().build().unwrap().block_on(mk())
        })
        .join()
        .unwrap()
    })
}

/// Polls a future to completion on the spot.  Unlike `futures::executor::block_on` it has no "already inside an
/// executor" guard, so async macros can be nested inside callbacks of other async macros.
pub fn spin<F: std::future::Future>(f: F) -> F::Output {
    let mut f = Box::pin(f);
    let w = futures::task::noop_waker();
    let mut cx = std::task::Context::from_waker(&w);
    loop {
        if let std::task::Poll::Ready(v) = f.as_mut().poll(&mut cx) {
            return v;
        }
        std::thread::yield_now();
    }
}
