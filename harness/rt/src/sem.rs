//! value-semantics helpers for the sem engine (filled in later)
