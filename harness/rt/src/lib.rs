//! Runtime library linked into every generated conformance program.
//!
//! It observes one macro evaluation ("run") at a time: a global recorder stamps
//! every event with a sequence number taken under its lock, the thread's name and
//! a small thread id, and the value of a counting allocator.  Callbacks consult the
//! run's fault plan, optionally block at a gate (threads) or pend on a gate future
//! (async), and log `enter` / `exit`.  Nothing here depends on olegnn/join.
#![allow(clippy::all)]

/// C12: takes a `let mut` name by mutable reference (no effect; the borrow is the point)
pub fn mutate<T>(_v: &mut T) {}
/// `futures` under another path: the value the C16 programs give to `futures_crate_path`
pub use futures as fut;
/// what the generated programs pass as `futures_crate_path(::rt::fx)`: all of `futures`, but its `join!` / `try_join!` log that
/// they were reached through this path (event `fxjoin`), so a macro call takes them from here iff it carries the option
pub mod fx {
    pub use crate::__fx_join as join;
    pub use crate::__fx_try_join as try_join;
    pub use futures::*;
}
#[macro_export]
macro_rules! __fx_join {
    ($($f:expr),+ $(,)?) => {{
        $crate::fx_ev($crate::count_exprs!($($f),+));
        $crate::fut::join!($($f),+)
    }};
}
#[macro_export]
macro_rules! __fx_try_join {
    ($($f:expr),+ $(,)?) => {{
        $crate::fx_ev($crate::count_exprs!($($f),+));
        $crate::fut::try_join!($($f),+)
    }};
}
pub fn fx_ev(n: i64) {
    let _q = Quiet::new();
    log(json!({"ev":"fxjoin","n":n}));
}
use serde_json::{json, Map, Value};
use std::alloc::{GlobalAlloc, Layout, System};
use std::cell::Cell;
use std::collections::{HashMap, HashSet};
use std::future::Future;
use std::pin::Pin;
use std::sync::atomic::{AtomicBool, AtomicU64, Ordering};
use std::sync::{Arc, Condvar, Mutex, MutexGuard};
use std::task::{Context, Poll, Wake, Waker};
use std::time::{Duration, Instant};

pub mod sem;

// ---------------------------------------------------------------------------
// counting allocator
// ---------------------------------------------------------------------------

pub struct Counting;
static HEAP: AtomicU64 = AtomicU64::new(0);
thread_local! {
    static COUNT_ON: Cell<bool> = const { Cell::new(false) };
    static TID: Cell<u64> = const { Cell::new(0) };
    static MY_RUN: Cell<u64> = const { Cell::new(0) };
}
static RUN_NO: AtomicU64 = AtomicU64::new(0);
/// A thread belongs to the run in which it first touched the recorder; a thread left over
/// from an earlier run (detached after a panic) must not write into a later run's log.
fn stale(st: &State) -> bool {
    MY_RUN.with(|c| {
        if c.get() == 0 {
            c.set(st.run);
            false
        } else {
            c.get() != st.run
        }
    })
}
static NEXT_TID: AtomicU64 = AtomicU64::new(1);

unsafe impl GlobalAlloc for Counting {
    unsafe fn alloc(&self, l: Layout) -> *mut u8 {
        if COUNT_ON.try_with(|c| c.get()).unwrap_or(false) {
            HEAP.fetch_add(1, Ordering::SeqCst);
        }
        System.alloc(l)
    }
    unsafe fn dealloc(&self, p: *mut u8, l: Layout) {
        System.dealloc(p, l)
    }
    unsafe fn realloc(&self, p: *mut u8, l: Layout, n: usize) -> *mut u8 {
        if COUNT_ON.try_with(|c| c.get()).unwrap_or(false) {
            HEAP.fetch_add(1, Ordering::SeqCst);
        }
        System.realloc(p, l, n)
    }
}

#[global_allocator]
static GLOBAL: Counting = Counting;

/// Guard that switches allocation counting off while the runtime itself works.
pub struct Quiet(bool);
impl Quiet {
    pub fn new() -> Self {
        let prev = COUNT_ON.with(|c| c.replace(false));
        Quiet(prev)
    }
}
impl Drop for Quiet {
    fn drop(&mut self) {
        let p = self.0;
        COUNT_ON.with(|c| c.set(p));
    }
}
pub fn count_allocs(on: bool) {
    COUNT_ON.with(|c| c.set(on));
}
pub fn heap() -> u64 {
    HEAP.load(Ordering::SeqCst)
}

// ---------------------------------------------------------------------------
// recorder
// ---------------------------------------------------------------------------

#[derive(Default)]
struct State {
    events: Vec<Value>,
    seq: u64,
    plan: HashMap<String, String>,
    gates: HashSet<i64>,
    released: HashSet<i64>,
    arrived: HashSet<i64>,
    wakers: HashMap<i64, Waker>,
    finished: bool,
    run: u64,
}

static REC: Mutex<Option<State>> = Mutex::new(None);
static CV: Condvar = Condvar::new();

fn lock() -> MutexGuard<'static, Option<State>> {
    REC.lock().unwrap_or_else(|e| e.into_inner())
}

fn ident() -> (String, u64) {
    let name = std::thread::current().name().unwrap_or("").to_string();
    let tid = TID.with(|c| {
        if c.get() == 0 {
            c.set(NEXT_TID.fetch_add(1, Ordering::SeqCst));
        }
        c.get()
    });
    (name, tid)
}

fn log_locked(st: &mut State, mut v: Value) {
    let (name, tid) = ident();
    st.seq += 1;
    let o = v.as_object_mut().unwrap();
    o.insert("seq".into(), json!(st.seq));
    o.insert("thr".into(), json!(name));
    o.insert("tid".into(), json!(tid));
    o.insert("heap".into(), json!(heap()));
    st.events.push(v);
}

pub fn log(v: Value) {
    let _q = Quiet::new();
    let mut g = lock();
    if let Some(st) = g.as_mut() {
        if stale(st) {
            return;
        }
        log_locked(st, v);
    }
}

fn act(key: &str) -> String {
    let g = lock();
    g.as_ref()
        .and_then(|s| s.plan.get(key).cloned())
        .unwrap_or_else(|| "pass".to_string())
}

fn maybe_panic(key: String) {
    if act(&key) == "panic" {
        log(json!({"ev":"panic","key":key}));
        panic!("injected panic at {}", key);
    }
}

/// Installs a silent panic hook once.
pub fn quiet_panics() {
    static DONE: AtomicBool = AtomicBool::new(false);
    if !DONE.swap(true, Ordering::SeqCst) {
        std::panic::set_hook(Box::new(|_| {}));
    }
}

pub fn panic_message(e: &(dyn std::any::Any + Send)) -> String {
    if let Some(s) = e.downcast_ref::<&str>() {
        s.to_string()
    } else if let Some(s) = e.downcast_ref::<String>() {
        s.clone()
    } else {
        "non-string panic".to_string()
    }
}

// ---------------------------------------------------------------------------
// tokens
// ---------------------------------------------------------------------------

/// Move-only value travelling through a branch.  `n` counts the callbacks that
/// transformed it, `last` is the id of the latest one (0: the initial value).
#[derive(Debug)]
pub struct Tok {
    pub b: i64,
    pub n: i64,
    pub last: i64,
    pub p: Mark,
}
/// Move-only failure payload.
#[derive(Debug)]
pub struct Fail {
    pub b: i64,
    pub n: i64,
    pub last: i64,
    pub p: Mark,
}
/// With feature `nosend` the travelling values are neither Send nor Sync (C19: the non-spawning macros must
/// not ask for either).
#[cfg(feature = "nosend")]
pub type Mark = std::marker::PhantomData<*const ()>;
#[cfg(not(feature = "nosend"))]
pub type Mark = std::marker::PhantomData<()>;
pub type Res = Result<Tok, Fail>;
pub type Opt = Option<Tok>;

fn cv(ok: bool, b: i64, n: i64, last: i64) -> Value {
    json!({"ok":ok,"b":b,"n":n,"last":last})
}
pub fn none_v() -> Value {
    cv(false, -1, -1, -1)
}

impl Drop for Tok {
    fn drop(&mut self) {
        let _q = Quiet::new();
        log(json!({"ev":"drop","v":cv(true,self.b,self.n,self.last)}));
    }
}
impl Drop for Fail {
    fn drop(&mut self) {
        let _q = Quiet::new();
        log(json!({"ev":"drop","v":cv(false,self.b,self.n,self.last)}));
    }
}
impl Tok {
    pub fn new(b: i64, n: i64, last: i64) -> Tok {
        Tok { b, n, last, p: std::marker::PhantomData }
    }
    fn bump(mut self, id: i64) -> Tok {
        self.n += 1;
        self.last = id;
        self
    }
    fn fail(self, id: i64) -> Fail {
        let f = Fail { b: self.b, n: self.n + 1, last: id, p: std::marker::PhantomData };
        std::mem::forget(self);
        f
    }
    fn vanish(self) {
        std::mem::forget(self)
    }
}
impl Fail {
    fn bump(mut self, id: i64) -> Fail {
        self.n += 1;
        self.last = id;
        self
    }
    fn recover(self, id: i64) -> Tok {
        let t = Tok { b: self.b, n: self.n + 1, last: id, p: std::marker::PhantomData };
        std::mem::forget(self);
        t
    }
    fn vanish(self) {
        std::mem::forget(self)
    }
}

/// Canonical JSON of a carrier value, by reference.
pub trait Snap {
    fn snap(&self) -> Value;
    /// is this the carrier (Result / Option) or a bare token?  (C12: a `let` name of a try macro holds the carrier)
    fn wrapped(&self) -> bool {
        false
    }
}
impl Snap for Tok {
    fn snap(&self) -> Value {
        cv(true, self.b, self.n, self.last)
    }
}
impl Snap for Fail {
    fn snap(&self) -> Value {
        cv(false, self.b, self.n, self.last)
    }
}
impl Snap for Res {
    fn snap(&self) -> Value {
        match self {
            Ok(t) => t.snap(),
            Err(f) => f.snap(),
        }
    }
    fn wrapped(&self) -> bool {
        true
    }
}
impl Snap for Opt {
    fn snap(&self) -> Value {
        match self {
            Some(t) => t.snap(),
            None => none_v(),
        }
    }
    fn wrapped(&self) -> bool {
        true
    }
}
pub fn wrapped<T: Snap>(v: &T) -> bool {
    v.wrapped()
}
pub fn snap<T: Snap>(v: &T) -> Value {
    let _q = Quiet::new();
    v.snap()
}

/// Consumes a value handed back to the harness (no drop event: it left the macro).
pub trait Take {
    fn take(self) -> Value;
}
impl Take for Tok {
    fn take(self) -> Value {
        let v = self.snap();
        self.vanish();
        v
    }
}
impl Take for Fail {
    fn take(self) -> Value {
        let v = self.snap();
        self.vanish();
        v
    }
}
impl Take for Res {
    fn take(self) -> Value {
        match self {
            Ok(t) => t.take(),
            Err(f) => f.take(),
        }
    }
}
impl Take for Opt {
    fn take(self) -> Value {
        match self {
            Some(t) => t.take(),
            None => none_v(),
        }
    }
}

/// Tuples of takeable values -> list of canonical values.
pub trait TakeList {
    fn take_list(self) -> Vec<Value>;
}
macro_rules! impl_take_list {
    ($( ($($t:ident),+) ),+) => {$(
        #[allow(non_snake_case)]
        impl<$($t: Take),+> TakeList for ($($t,)+) {
            fn take_list(self) -> Vec<Value> {
                let ($($t,)+) = self;
                vec![$($t.take()),+]
            }
        }
    )+};
}
impl_take_list! {
    (A,B),(A,B,C),(A,B,C,D),(A,B,C,D,E),(A,B,C,D,E,F),(A,B,C,D,E,F,G),(A,B,C,D,E,F,G,H),
    (A,B,C,D,E,F,G,H,I),(A,B,C,D,E,F,G,H,I,J),(A,B,C,D,E,F,G,H,I,J,K),(A,B,C,D,E,F,G,H,I,J,K,L),
    (A,B,C,D,E,F,G,H,I,J,K,L,M),(A,B,C,D,E,F,G,H,I,J,K,L,M,N),(A,B,C,D,E,F,G,H,I,J,K,L,M,N,O),
    (A,B,C,D,E,F,G,H,I,J,K,L,M,N,O,P),(A,B,C,D,E,F,G,H,I,J,K,L,M,N,O,P,Q),
    (A,B,C,D,E,F,G,H,I,J,K,L,M,N,O,P,Q,R),(A,B,C,D,E,F,G,H,I,J,K,L,M,N,O,P,Q,R,S),
    (A,B,C,D,E,F,G,H,I,J,K,L,M,N,O,P,Q,R,S,T),(A,B,C,D,E,F,G,H,I,J,K,L,M,N,O,P,Q,R,S,T,U),
    (A,B,C,D,E,F,G,H,I,J,K,L,M,N,O,P,Q,R,S,T,U,V),(A,B,C,D,E,F,G,H,I,J,K,L,M,N,O,P,Q,R,S,T,U,V,W),
    (A,B,C,D,E,F,G,H,I,J,K,L,M,N,O,P,Q,R,S,T,U,V,W,X),(A,B,C,D,E,F,G,H,I,J,K,L,M,N,O,P,Q,R,S,T,U,V,W,X,Y),
    (A,B,C,D,E,F,G,H,I,J,K,L,M,N,O,P,Q,R,S,T,U,V,W,X,Y,Z)
}

/// Result of a whole macro evaluation in canonical form.
/// `{"t":"ok"|"err"|"tuple","vals":[..]}`
pub fn r_tuple<T: TakeList>(r: T) -> Value {
    let _q = Quiet::new();
    json!({"t":"tuple","vals":r.take_list()})
}
pub fn r_one<T: Take>(r: T) -> Value {
    let _q = Quiet::new();
    json!({"t":"tuple","vals":[r.take()]})
}
pub fn r_try<T: TakeList, E: Take>(r: Result<T, E>) -> Value {
    let _q = Quiet::new();
    match r {
        Ok(t) => json!({"t":"ok","vals":t.take_list()}),
        Err(e) => json!({"t":"err","vals":[e.take()]}),
    }
}
pub fn r_try1<T: Take, E: Take>(r: Result<T, E>) -> Value {
    let _q = Quiet::new();
    match r {
        Ok(t) => json!({"t":"ok","vals":[t.take()]}),
        Err(e) => json!({"t":"err","vals":[e.take()]}),
    }
}
pub fn r_otry<T: TakeList>(r: Option<T>) -> Value {
    let _q = Quiet::new();
    match r {
        Some(t) => json!({"t":"ok","vals":t.take_list()}),
        None => json!({"t":"err","vals":[none_v()]}),
    }
}
pub fn r_otry1<T: Take>(r: Option<T>) -> Value {
    let _q = Quiet::new();
    match r {
        Some(t) => json!({"t":"ok","vals":[t.take()]}),
        None => json!({"t":"err","vals":[none_v()]}),
    }
}

// ---------------------------------------------------------------------------
// user expressions of the generated programs (sync)
// ---------------------------------------------------------------------------

fn gate(id: i64) {
    let mut g = lock();
    let st = match g.as_mut() {
        Some(s) => s,
        None => return,
    };
    if !st.gates.contains(&id) || stale(st) {
        return;
    }
    log_locked(st, json!({"ev":"arrive","id":id}));
    st.arrived.insert(id);
    CV.notify_all();
    loop {
        let rel = g.as_ref().map(|s| s.released.contains(&id)).unwrap_or(true);
        if rel {
            break;
        }
        g = CV.wait(g).unwrap_or_else(|e| e.into_inner());
    }
}

fn enter(id: i64, arg: Value) -> String {
    log(json!({"ev":"enter","id":id,"arg":arg}));
    gate(id);
    let a = act(&format!("f{}", id));
    if a == "panic" {
        log(json!({"ev":"panic","key":format!("f{}", id)}));
        panic!("injected panic at f{}", id);
    }
    a
}
fn exit(id: i64, ret: Value) {
    log(json!({"ev":"exit","id":id,"ret":ret}));
}

/// initial value of branch `b` (expression form)
pub fn init(id: i64, b: i64) -> Res {
    let _q = Quiet::new();
    log(json!({"ev":"init","id":id,"b":b}));
    maybe_panic(format!("i{}", id));
    match act(&format!("f{}", id)).as_str() {
        "fail" => Err(Fail { b, n: 0, last: id, p: std::marker::PhantomData }),
        _ => Ok(Tok { b, n: 0, last: id, p: std::marker::PhantomData }),
    }
}
pub fn oinit(id: i64, b: i64) -> Opt {
    let _q = Quiet::new();
    log(json!({"ev":"init","id":id,"b":b}));
    maybe_panic(format!("i{}", id));
    match act(&format!("f{}", id)).as_str() {
        "fail" => None,
        _ => Some(Tok { b, n: 0, last: id, p: std::marker::PhantomData }),
    }
}
/// value of a block-form initial expression (the `cap` event was logged by `cap`)
pub fn init_q(id: i64, b: i64) -> Res {
    let _q = Quiet::new();
    match act(&format!("f{}", id)).as_str() {
        "fail" => Err(Fail { b, n: 0, last: id, p: std::marker::PhantomData }),
        _ => Ok(Tok { b, n: 0, last: id, p: std::marker::PhantomData }),
    }
}
pub fn oinit_q(id: i64, b: i64) -> Opt {
    let _q = Quiet::new();
    match act(&format!("f{}", id)).as_str() {
        "fail" => None,
        _ => Some(Tok { b, n: 0, last: id, p: std::marker::PhantomData }),
    }
}

/// a callback of a thread-spawning macro nested inside a callback: logs the thread it runs on
/// (`path`: branch indices of the enclosing spawned branches, outermost first)
pub fn nest(path: &[i64]) {
    let _q = Quiet::new();
    log(json!({"ev":"nest","path":path}));
}
/// operand written as a call expression: logs its evaluation
pub fn opnd(id: i64) {
    let _q = Quiet::new();
    log(json!({"ev":"opnd","id":id}));
    maybe_panic(format!("o{}", id));
}
/// block capture: logs its evaluation with the snapshots it took
pub fn cap(id: i64, reads: &[(i64, Value, bool)]) {
    let _q = Quiet::new();
    let r: Vec<Value> = reads.iter().map(|(b, v, w)| json!({"b":b,"v":v,"w":w})).collect();
    log(json!({"ev":"cap","id":id,"reads":r}));
    maybe_panic(format!("c{}", id));
}

/// `|>` on Result/Option: Tok -> Tok
pub fn m(id: i64, t: Tok) -> Tok {
    let _q = Quiet::new();
    let _ = enter(id, t.snap());
    let r = t.bump(id);
    exit(id, r.snap());
    r
}
/// `=>` on Result
pub fn a(id: i64, t: Tok) -> Res {
    let _q = Quiet::new();
    let a = enter(id, t.snap());
    let r = if a == "fail" { Err(t.fail(id)) } else { Ok(t.bump(id)) };
    exit(id, r.snap());
    r
}
/// `<=` on Result
pub fn o(id: i64, e: Fail) -> Res {
    let _q = Quiet::new();
    let a = enter(id, e.snap());
    let r = if a == "recover" { Ok(e.recover(id)) } else { Err(e.bump(id)) };
    exit(id, r.snap());
    r
}
/// `!>` on Result
pub fn e(id: i64, e: Fail) -> Fail {
    let _q = Quiet::new();
    let _ = enter(id, e.snap());
    let r = e.bump(id);
    exit(id, r.snap());
    r
}
fn whole(a: &str, id: i64, r: Res) -> Res {
    match (a, r) {
        ("fail", Ok(t)) => Err(t.fail(id)),
        ("fail", Err(e)) => Err(e.bump(id)),
        ("recover", Ok(t)) => Ok(t.bump(id)),
        ("recover", Err(e)) => Ok(e.recover(id)),
        (_, Ok(t)) => Ok(t.bump(id)),
        (_, Err(e)) => Err(e.bump(id)),
    }
}
/// `->` on Result (whole carrier)
pub fn t(id: i64, r: Res) -> Res {
    let _q = Quiet::new();
    let a = enter(id, r.snap());
    let r = whole(&a, id, r);
    exit(id, r.snap());
    r
}
/// `lazy_branches(false)` with threads: the value of the branch expression is the job the thread runs
#[cfg(not(feature = "nosend"))]
pub fn job(id: i64, r: Res) -> impl FnOnce() -> Res + Send + 'static {
    move || t(id, r)
}
#[cfg(feature = "nosend")]
pub fn job(id: i64, r: Res) -> impl FnOnce() -> Res + 'static {
    move || t(id, r)
}
/// operand of `->` behind a closure-valued branch: runs the closure
pub fn force<R>(f: impl FnOnce() -> R) -> R {
    f()
}
/// `??` on Result
pub fn i(id: i64, r: &Res) {
    let _q = Quiet::new();
    let _ = enter(id, r.snap());
    exit(id, r.snap());
}
/// operand of `<|` : an alternative value (call form only)
pub fn alt(id: i64, b: i64) -> Res {
    let _q = Quiet::new();
    log(json!({"ev":"opnd","id":id}));
    maybe_panic(format!("o{}", id));
    match act(&format!("f{}", id)).as_str() {
        "fail" => Err(Fail { b, n: 0, last: id, p: std::marker::PhantomData }),
        _ => Ok(Tok { b, n: 0, last: id, p: std::marker::PhantomData }),
    }
}
/// `..dot(id)` member access
pub trait Dot {
    fn dot(self, id: i64) -> Self;
}
impl Dot for Res {
    fn dot(self, id: i64) -> Res {
        t(id, self)
    }
}
impl Dot for Opt {
    fn dot(self, id: i64) -> Opt {
        ot(id, 0, self)
    }
}

// Option carrier
pub fn oa(id: i64, t: Tok) -> Opt {
    let _q = Quiet::new();
    let a = enter(id, t.snap());
    let r = if a == "fail" {
        t.vanish();
        None
    } else {
        Some(t.bump(id))
    };
    exit(id, r.snap());
    r
}
pub fn oo(id: i64, b: i64) -> Opt {
    let _q = Quiet::new();
    let a = enter(id, none_v());
    let r = if a == "recover" { Some(Tok { b, n: 0, last: id, p: std::marker::PhantomData }) } else { None };
    exit(id, r.snap());
    r
}
pub fn of(id: i64, t: &Tok) -> bool {
    let _q = Quiet::new();
    let a = enter(id, t.snap());
    let keep = a != "fail";
    log(json!({"ev":"exit","id":id,"ret": if keep { t.snap() } else { none_v() }}));
    keep
}
pub fn ot(id: i64, b: i64, r: Opt) -> Opt {
    let _q = Quiet::new();
    let a = enter(id, r.snap());
    let r = match (a.as_str(), r) {
        ("fail", Some(t)) => {
            t.vanish();
            None
        }
        ("fail", None) => None,
        ("recover", None) => Some(Tok { b, n: 0, last: id, p: std::marker::PhantomData }),
        (_, Some(t)) => Some(t.bump(id)),
        (_, None) => None,
    };
    exit(id, r.snap());
    r
}
pub fn oi(id: i64, r: &Opt) {
    let _q = Quiet::new();
    let _ = enter(id, r.snap());
    exit(id, r.snap());
}
pub fn oalt(id: i64, b: i64) -> Opt {
    let _q = Quiet::new();
    log(json!({"ev":"opnd","id":id}));
    maybe_panic(format!("o{}", id));
    match act(&format!("f{}", id)).as_str() {
        "fail" => None,
        _ => Some(Tok { b, n: 0, last: id, p: std::marker::PhantomData }),
    }
}

// ---------------------------------------------------------------------------
// handlers
// ---------------------------------------------------------------------------

pub enum Arg {
    T(Tok),
    R(Res),
    O(Opt),
    Gone,
}
impl From<Tok> for Arg {
    fn from(t: Tok) -> Arg {
        Arg::T(t)
    }
}
impl From<Res> for Arg {
    fn from(t: Res) -> Arg {
        Arg::R(t)
    }
}
impl From<Opt> for Arg {
    fn from(t: Opt) -> Arg {
        Arg::O(t)
    }
}
fn take_args(args: &mut [Arg]) -> Vec<Value> {
    args.iter_mut()
        .map(|a| match std::mem::replace(a, Arg::Gone) {
            Arg::T(t) => t.take(),
            Arg::R(t) => t.take(),
            Arg::O(t) => t.take(),
            Arg::Gone => Value::Null,
        })
        .collect()
}
/// evaluation of the handler expression (call form)
pub fn hx() {
    let _q = Quiet::new();
    log(json!({"ev":"hexpr"}));
    maybe_panic("hx".to_string());
}
/// handler body: consumes the arguments, returns the handler token (b = 100)
pub fn h(args: &mut [Arg]) -> Tok {
    let _q = Quiet::new();
    let n = args.len() as i64;
    let vals = take_args(args);
    log(json!({"ev":"hcall","args":vals}));
    maybe_panic("hc".to_string());
    Tok { b: 100, n, last: 0, p: std::marker::PhantomData }
}
/// `and_then` handler body (Result carrier)
pub fn hr(args: &mut [Arg]) -> Res {
    let _q = Quiet::new();
    let n = args.len() as i64;
    let vals = take_args(args);
    log(json!({"ev":"hcall","args":vals}));
    maybe_panic("hc".to_string());
    if act("hc") == "fail" {
        Err(Fail { b: 100, n, last: 0, p: std::marker::PhantomData })
    } else {
        Ok(Tok { b: 100, n, last: 0, p: std::marker::PhantomData })
    }
}
pub fn ho(args: &mut [Arg]) -> Opt {
    let _q = Quiet::new();
    let n = args.len() as i64;
    let vals = take_args(args);
    log(json!({"ev":"hcall","args":vals}));
    maybe_panic("hc".to_string());
    if act("hc") == "fail" {
        None
    } else {
        Some(Tok { b: 100, n, last: 0, p: std::marker::PhantomData })
    }
}

// ---------------------------------------------------------------------------
// joiners
// ---------------------------------------------------------------------------

pub fn joiner_ev(n: i64, lazy: bool) {
    let _q = Quiet::new();
    log(json!({"ev":"joiner","n":n,"lazy":lazy}));
    maybe_panic("jn".to_string());
}
pub fn joiner_done() {
    let _q = Quiet::new();
    log(json!({"ev":"jdone"}));
}

macro_rules! eager_joiner {
    ($name:ident, $n:expr, $($t:ident $v:ident),+) => {
        pub fn $name<$($t),+>($($v: $t),+) -> ($($t,)+) {
            joiner_ev($n, false);
            ($($v,)+)
        }
    };
}
eager_joiner!(j2, 2, A a, B b);
eager_joiner!(j3, 3, A a, B b, C c);
eager_joiner!(j4, 4, A a, B b, C c, D d);
eager_joiner!(j5, 5, A a, B b, C c, D d, E e);

macro_rules! lazy_joiner {
    ($name:ident, $n:expr, $($t:ident $f:ident $v:ident),+) => {
        pub fn $name<$($t, $f: FnOnce() -> $t),+>($($v: $f),+) -> ($($t,)+) {
            joiner_ev($n, true);
            let r = ($($v(),)+);
            joiner_done();
            r
        }
    };
}
lazy_joiner!(lj2, 2, A FA a, B FB b);
lazy_joiner!(lj3, 3, A FA a, B FB b, C FC c);
lazy_joiner!(lj4, 4, A FA a, B FB b, C FC c, D FD d);
lazy_joiner!(lj5, 5, A FA a, B FB b, C FC c, D FD d, E FE e);

/// try joiners for `transpose_results(false)`: return the transposed Result
macro_rules! try_joiner {
    ($name:ident, $n:expr, $($t:ident $v:ident),+) => {
        pub fn $name<$($t),+, X>($($v: Result<$t, X>),+) -> Result<($($t,)+), X> {
            joiner_ev($n, false);
            Ok(($($v?,)+))
        }
    };
}
try_joiner!(tj2, 2, A a, B b);
try_joiner!(tj3, 3, A a, B b, C c);
try_joiner!(tj4, 4, A a, B b, C c, D d);

#[macro_export]
macro_rules! count_exprs {
    () => { 0i64 };
    ($h:expr $(, $t:expr)*) => { 1i64 + $crate::count_exprs!($($t),*) };
}
/// sync joiners of any arity (the active-branch count changes from step to step)
#[macro_export]
macro_rules! jm {
    ($($f:expr),+) => {{
        let __t = ($($f,)+);
        $crate::joiner_ev($crate::count_exprs!($($f),+), false);
        __t
    }};
}
#[macro_export]
macro_rules! ljm {
    ($($f:expr),+) => {{
        $crate::joiner_ev($crate::count_exprs!($($f),+), true);
        ($(($f)(),)+)
    }};
}
/// joiners that are generic FUNCTIONS (like `rayon::join`): every call site infers its own type parameters
pub fn lfj2<RA, RB>(a: impl FnOnce() -> RA, b: impl FnOnce() -> RB) -> (RA, RB) {
    joiner_ev(2, true);
    (a(), b())
}
pub fn lfj3<RA, RB, RC>(a: impl FnOnce() -> RA, b: impl FnOnce() -> RB, c: impl FnOnce() -> RC) -> (RA, RB, RC) {
    joiner_ev(3, true);
    (a(), b(), c())
}
/// transposing joiner for `transpose_results(false)`: the tuple of Results becomes the Result of the tuple
pub trait Transpose {
    type Out;
    fn transpose(self) -> Self::Out;
}
macro_rules! impl_transpose {
    ($( ($($t:ident $v:ident),+) ),+) => {$(
        impl<$($t),+, X> Transpose for ($(Result<$t, X>,)+) {
            type Out = Result<($($t,)+), X>;
            fn transpose(self) -> Self::Out {
                let ($($v,)+) = self;
                Ok(($($v?,)+))
            }
        }
    )+};
}
impl_transpose! { (A a, B b), (A a, B b, C c), (A a, B b, C c, D d), (A a, B b, C c, D d, E e) }
#[macro_export]
macro_rules! tjm {
    ($($f:expr),+) => {{
        let __t = ($($f,)+);
        $crate::joiner_ev($crate::count_exprs!($($f),+), false);
        $crate::Transpose::transpose(__t)
    }};
}
/// async joiners are macros that await inside (as the README shows)
#[macro_export]
macro_rules! aj {
    ($($f:expr),+) => {{
        $crate::joiner_ev($crate::count_exprs!($($f),+), false);
        $crate::fut::join!($($f),+)
    }};
}
#[macro_export]
macro_rules! atj {
    ($($f:expr),+) => {{
        $crate::joiner_ev($crate::count_exprs!($($f),+), false);
        $crate::fut::try_join!($($f),+)
    }};
}
/// async lazy joiner: branches arrive as `move || future`
#[macro_export]
macro_rules! alj {
    ($($f:expr),+) => {{
        $crate::joiner_ev($crate::count_exprs!($($f),+), true);
        $crate::fut::join!($(($f)()),+)
    }};
}
#[macro_export]
macro_rules! altj {
    ($($f:expr),+) => {{
        $crate::joiner_ev($crate::count_exprs!($($f),+), true);
        $crate::fut::try_join!($(($f)()),+)
    }};
}

// ---------------------------------------------------------------------------
// async user expressions
// ---------------------------------------------------------------------------

/// Future that pends at gate `id` until the harness marks it ready.
pub struct GF<T> {
    id: i64,
    out: Option<T>,
    ret: Value,
    arrived: bool,
    exit_ev: bool,
}
impl<T> Unpin for GF<T> {}
impl<T> Future for GF<T> {
    type Output = T;
    fn poll(mut self: Pin<&mut Self>, cx: &mut Context<'_>) -> Poll<T> {
        let _q = Quiet::new();
        let id = self.id;
        {
            let mut g = lock();
            if let Some(st) = g.as_mut() {
                if st.gates.contains(&id) && !st.released.contains(&id) {
                    if !self.arrived {
                        log_locked(st, json!({"ev":"arrive","id":id}));
                        st.arrived.insert(id);
                        self.arrived = true;
                    }
                    st.wakers.insert(id, cx.waker().clone());
                    return Poll::Pending;
                }
            }
        }
        if self.exit_ev {
            let r = std::mem::replace(&mut self.ret, Value::Null);
            exit(id, r);
        }
        Poll::Ready(self.out.take().expect("GF polled after completion"))
    }
}
fn gf<T: Snap>(id: i64, out: T, exit_ev: bool) -> GF<T> {
    let ret = out.snap();
    GF { id, out: Some(out), ret, arrived: false, exit_ev }
}

fn aenter(id: i64, arg: Value) -> String {
    log(json!({"ev":"enter","id":id,"arg":arg}));
    let a = act(&format!("f{}", id));
    if a == "panic" {
        log(json!({"ev":"panic","key":format!("f{}", id)}));
        panic!("injected panic at f{}", id);
    }
    a
}

/// initial future of branch b: logs `init` when *created*, completes (after its gate) with the value
pub fn ainit(id: i64, b: i64) -> GF<Res> {
    let _q = Quiet::new();
    log(json!({"ev":"init","id":id,"b":b}));
    maybe_panic(format!("i{}", id));
    let r = match act(&format!("f{}", id)).as_str() {
        "fail" => Err(Fail { b, n: 0, last: id, p: std::marker::PhantomData }),
        _ => Ok(Tok { b, n: 0, last: id, p: std::marker::PhantomData }),
    };
    gf(id, r, false)
}
/// something a branch's own expression awaits (`f(g().await)`): a gate future without a value
pub fn wait(id: i64) -> GF<()> {
    GF { id, out: Some(()), ret: Value::Null, arrived: false, exit_ev: false }
}
pub fn ainit_after(_: (), id: i64, b: i64) -> GF<Res> {
    ainit(id, b)
}
pub fn ainit_q(id: i64, b: i64) -> GF<Res> {
    let _q = Quiet::new();
    let r = match act(&format!("f{}", id)).as_str() {
        "fail" => Err(Fail { b, n: 0, last: id, p: std::marker::PhantomData }),
        _ => Ok(Tok { b, n: 0, last: id, p: std::marker::PhantomData }),
    };
    gf(id, r, false)
}
/// `|>` on a future: FutureExt::map over the whole output (synchronous callback)
pub fn am(id: i64, r: Res) -> Res {
    let _q = Quiet::new();
    let a = aenter(id, r.snap());
    let r = whole(&a, id, r);
    exit(id, r.snap());
    r
}
/// `=>` on a future: TryFutureExt::and_then, returns a (possibly gated) future
pub fn aa(id: i64, t: Tok) -> GF<Res> {
    let _q = Quiet::new();
    let a = aenter(id, t.snap());
    let r = if a == "fail" { Err(t.fail(id)) } else { Ok(t.bump(id)) };
    gf(id, r, true)
}
/// `<=` on a future: TryFutureExt::or_else
pub fn ao(id: i64, e: Fail) -> GF<Res> {
    let _q = Quiet::new();
    let a = aenter(id, e.snap());
    let r = if a == "recover" { Ok(e.recover(id)) } else { Err(e.bump(id)) };
    gf(id, r, true)
}
/// `!>` on a future: TryFutureExt::map_err (synchronous)
pub fn ae(id: i64, e: Fail) -> Fail {
    let _q = Quiet::new();
    let _ = aenter(id, e.snap());
    let r = e.bump(id);
    exit(id, r.snap());
    r
}
/// `->` on a future: receives the future, returns a future
pub fn at<F: Future<Output = Res>>(id: i64, f: F) -> impl Future<Output = Res> {
    async move {
        let r = f.await;
        let g = {
            let _q = Quiet::new();
            let a = aenter(id, r.snap());
            let r = whole(&a, id, r);
            gf(id, r, true)
        };
        g.await
    }
}
/// `??` on a future: FutureExt::inspect
pub fn ai(id: i64, r: &Res) {
    i(id, r)
}
/// async handler bodies return futures (awaited by the macro for then / and_then)
pub fn aht(hid: i64, args: &mut [Arg]) -> HFut {
    let t = h(args);
    HFut { gate: gf(hid, Ok(t), false) }
}
/// future returned by an async `then` handler: logs `hawait` when it completes
pub struct HFut {
    gate: GF<Res>,
}
impl Future for HFut {
    type Output = Tok;
    fn poll(mut self: Pin<&mut Self>, cx: &mut Context<'_>) -> Poll<Tok> {
        match Pin::new(&mut self.gate).poll(cx) {
            Poll::Pending => Poll::Pending,
            Poll::Ready(r) => {
                log(json!({"ev":"hawait"}));
                maybe_panic("hf".to_string());
                Poll::Ready(r.ok().unwrap())
            }
        }
    }
}
/// future returned by an async `and_then` handler
pub struct HRFut {
    gate: GF<Res>,
}
impl Future for HRFut {
    type Output = Res;
    fn poll(mut self: Pin<&mut Self>, cx: &mut Context<'_>) -> Poll<Res> {
        match Pin::new(&mut self.gate).poll(cx) {
            Poll::Pending => Poll::Pending,
            Poll::Ready(r) => {
                log(json!({"ev":"hawait"}));
                maybe_panic("hf".to_string());
                Poll::Ready(r)
            }
        }
    }
}
pub fn ahrf(hid: i64, args: &mut [Arg]) -> HRFut {
    let r = hr(args);
    HRFut { gate: gf(hid, r, false) }
}

// ---------------------------------------------------------------------------
// run control
// ---------------------------------------------------------------------------

pub struct RunSpec {
    pub header: Value,
    pub plan: Vec<(String, String)>,
    pub gates: Vec<i64>,
}

pub fn begin_run(rs: &RunSpec) {
    let _q = Quiet::new();
    quiet_panics();
    let mut g = lock();
    let mut st = State::default();
    st.run = RUN_NO.fetch_add(1, Ordering::SeqCst) + 1;
    MY_RUN.with(|c| c.set(st.run));
    for (k, v) in &rs.plan {
        st.plan.insert(k.clone(), v.clone());
    }
    for x in &rs.gates {
        st.gates.insert(*x);
    }
    let mut h = rs.header.clone();
    h.as_object_mut().unwrap().insert("ev".into(), json!("reset"));
    log_locked(&mut st, h);
    *g = Some(st);
}
/// Takes the events of the finished run.
pub fn end_run() -> Vec<Value> {
    let _q = Quiet::new();
    let mut g = lock();
    g.take().map(|s| s.events).unwrap_or_default()
}
pub fn mark_finished() {
    let mut g = lock();
    if let Some(st) = g.as_mut() {
        st.finished = true;
    }
    CV.notify_all();
}
pub fn event_count() -> usize {
    lock().as_ref().map(|s| s.events.len()).unwrap_or(0)
}
pub fn arrived_unreleased() -> Vec<i64> {
    let g = lock();
    let mut v: Vec<i64> = g
        .as_ref()
        .map(|s| s.arrived.difference(&s.released).cloned().collect())
        .unwrap_or_default();
    v.sort();
    v
}

/// Thread scheduler: waits until exactly `expect` are the arrived-and-unreleased
/// gates (or the caller finished), for at most `timeout`.
pub fn wait_arrivals(expect: &[i64], timeout: Duration) -> Result<(), Vec<i64>> {
    let mut want: Vec<i64> = expect.to_vec();
    want.sort();
    let deadline = Instant::now() + timeout;
    let mut g = lock();
    loop {
        let mut cur: Vec<i64> = g
            .as_ref()
            .map(|s| s.arrived.difference(&s.released).cloned().collect())
            .unwrap_or_default();
        cur.sort();
        if cur == want {
            return Ok(());
        }
        let now = Instant::now();
        if now >= deadline {
            return Err(cur);
        }
        let (ng, _) = CV
            .wait_timeout(g, deadline - now)
            .unwrap_or_else(|e| e.into_inner());
        g = ng;
    }
}
pub fn wait_finished(timeout: Duration) -> bool {
    let deadline = Instant::now() + timeout;
    let mut g = lock();
    loop {
        if g.as_ref().map(|s| s.finished).unwrap_or(true) {
            return true;
        }
        let now = Instant::now();
        if now >= deadline {
            return false;
        }
        let (ng, _) = CV
            .wait_timeout(g, deadline - now)
            .unwrap_or_else(|e| e.into_inner());
        g = ng;
    }
}
pub fn release(id: i64) {
    let mut g = lock();
    if let Some(st) = g.as_mut() {
        log_locked(st, json!({"ev":"release","id":id}));
        st.released.insert(id);
    }
    CV.notify_all();
}
/// Releases every gate without logging (used to unblock threads after a verdict).
pub fn release_all_silently() {
    let mut g = lock();
    if let Some(st) = g.as_mut() {
        let all: Vec<i64> = st.gates.iter().cloned().collect();
        for x in all {
            st.released.insert(x);
        }
        let ws: Vec<Waker> = st.wakers.drain().map(|(_, w)| w).collect();
        drop(g);
        for w in ws {
            w.wake();
        }
    }
    CV.notify_all();
}

// ---------------------------------------------------------------------------
// drivers
// ---------------------------------------------------------------------------

fn get_i64s(v: &Value) -> Vec<i64> {
    v.as_array()
        .map(|a| a.iter().filter_map(|x| x.as_i64()).collect())
        .unwrap_or_default()
}

/// Runs a synchronous (sequential or thread-spawning) program on a caller thread
/// while this thread plays the schedule: a list of `{"g":id,"expect":[ids]}`.
pub fn drive_sync(
    f: fn() -> Value,
    caller_named: bool,
    sched: &[Value],
    grace_ms: u64,
    count: bool,
    auto_release: bool,
    hold_until_end: &[i64],
) {
    let body = move || {
        log(json!({"ev":"begin"}));
        count_allocs(count);
        let r = std::panic::catch_unwind(f);
        count_allocs(false);
        match r {
            Ok(v) => log(json!({"ev":"end","res":v})),
            Err(e) => log(json!({"ev":"end","res":{"t":"panicked","vals":[]},"msg":panic_message(&*e)})),
        }
        mark_finished();
    };
    let b = std::thread::Builder::new();
    let b = if caller_named { b.name("cal".to_string()) } else { b };
    let h = b.spawn(body).unwrap();
    let long = Duration::from_millis(4000);
    if auto_release {
        // free-running mode (panic plans: detached threads make arrival sets racy): release every
        // gate as soon as a thread is parked at it; the trace specification alone is the judge
        // `hold_until_end`: gates of siblings that stay closed until the caller has its result (a panic must
        // surface while they are parked); if the caller does not get it within `long` that is logged as `stuck`
        let t0 = Instant::now();
        let mut held: Vec<i64> = hold_until_end.to_vec();
        loop {
            let parked: Vec<i64> = arrived_unreleased().into_iter().filter(|g| !held.contains(g)).collect();
            if let Some(g) = parked.first() {
                release(*g);
                continue;
            }
            if wait_finished(Duration::from_millis(2)) {
                break;
            }
            if !held.is_empty() && t0.elapsed() > long {
                let at: Vec<i64> = arrived_unreleased();
                log(json!({"ev":"stuck","held":held,"arrived":at,"what":"the caller did not get its result while these gates stayed closed"}));
                held.clear();
            }
        }
        // threads detached by a panic may still run: let them reach their gates and finish their step
        for _ in 0..40 {
            std::thread::sleep(Duration::from_millis(1));
            for g in arrived_unreleased() {
                release(g);
            }
        }
        let _ = h.join();
        return;
    }
    for s in sched {
        let expect = get_i64s(&s["expect"]);
        let gid = s["g"].as_i64().unwrap_or(-1);
        match wait_arrivals(&expect, long) {
            Ok(()) => {
                let hold = s["hold"].as_bool().unwrap_or(false);
                if hold && grace_ms > 0 {
                    // hold the last gate of a step: nothing of a later step may be logged meanwhile;
                    // presence is decided from the log order by the trace specification.
                    std::thread::sleep(Duration::from_millis(grace_ms));
                    let now = arrived_unreleased();
                    let mut want = expect.clone();
                    want.sort();
                    if now != want {
                        log(json!({"ev":"mismatch","what":"arrivals-after-hold","expect":want,"got":now}));
                    }
                }
                release(gid);
            }
            Err(cur) => {
                log(json!({"ev":"stuck","expect":expect,"got":cur,"next":gid}));
                break;
            }
        }
    }
    if !wait_finished(long) {
        log(json!({"ev":"stuck","expect":[],"got":arrived_unreleased(),"next":-1}));
        release_all_silently();
        wait_finished(long);
    }
    let _ = h.join();
}

struct Flag(AtomicBool);
impl Wake for Flag {
    fn wake(self: Arc<Self>) {
        self.0.store(true, Ordering::SeqCst);
    }
    fn wake_by_ref(self: &Arc<Self>) {
        self.0.store(true, Ordering::SeqCst);
    }
}

pub type BoxFut = Pin<Box<dyn Future<Output = Value> + Send>>;
pub type LocalBoxFut = Pin<Box<dyn Future<Output = Value>>>;

fn mark_ready(ids: &[i64]) -> Vec<Waker> {
    let mut g = lock();
    let mut ws = Vec::new();
    if let Some(st) = g.as_mut() {
        for id in ids {
            st.released.insert(*id);
            if let Some(w) = st.wakers.remove(id) {
                ws.push(w);
            }
        }
    }
    ws
}

/// One step of the root future under catch_unwind. Returns Some(done) or None on panic.
fn poll_root<F: Future<Output = Value> + ?Sized>(
    fut: &mut Pin<Box<F>>,
    flag: &mut Arc<Flag>,
    spurious: bool,
) -> Option<bool> {
    log(json!({"ev":"poll","spurious":spurious}));
    // every poll hands over a NEW waker; only a wake-up of the latest one counts (a future must wake the waker of its most
    // recent poll, C09: every wake-up of a branch reaches the macro's future wherever that is polled from)
    *flag = Arc::new(Flag(AtomicBool::new(false)));
    let waker = Waker::from(flag.clone());
    let mut cx = Context::from_waker(&waker);
    let r = std::panic::catch_unwind(std::panic::AssertUnwindSafe(|| fut.as_mut().poll(&mut cx)));
    match r {
        Ok(Poll::Pending) => {
            log(json!({"ev":"pollend","done":false}));
            Some(false)
        }
        Ok(Poll::Ready(v)) => {
            log(json!({"ev":"pollend","done":true}));
            log(json!({"ev":"end","res":v}));
            Some(true)
        }
        Err(e) => {
            log(json!({"ev":"end","res":{"t":"panicked","vals":[]},"msg":panic_message(&*e)}));
            None
        }
    }
}

fn check_expect(s: &Value, done: bool) {
    if let Some(exp) = s.get("expect") {
        let mut want = get_i64s(&exp["arrived"]);
        want.sort();
        let got = arrived_unreleased();
        let wdone = exp["done"].as_bool().unwrap_or(false);
        // once the future has completed the parked set is not part of the projection: an async try macro
        // completes with the first failure it sees and never polls the siblings behind it again
        if (want != got && !(wdone && done)) || wdone != done {
            log(json!({"ev":"mismatch","what":"projection","expect":exp,"got":{"arrived":got,"done":done}}));
        }
    }
}

/// Deterministic executor for the plain async macros. The schedule is a list of
/// `{"a":"poll"}` / `{"a":"ready","ids":[..]}` steps, optionally with the
/// projection the specification expects afterwards.
pub fn drive_async(mk: fn() -> LocalBoxFut, sched: &[Value], auto: bool) {
    log(json!({"ev":"create"}));
    let created = std::panic::catch_unwind(mk);
    let mut fut = match created {
        Ok(f) => f,
        Err(e) => {
            log(json!({"ev":"end","res":{"t":"panicked","vals":[]},"msg":panic_message(&*e)}));
            return;
        }
    };
    log(json!({"ev":"created"}));
    let mut flag = Arc::new(Flag(AtomicBool::new(false)));
    let mut done = false;
    for s in sched {
        if done {
            break;
        }
        match s["a"].as_str().unwrap_or("") {
            "poll" => {
                let woken = flag.0.load(Ordering::SeqCst);
                match poll_root(&mut fut, &mut flag, !woken && event_count() > 3) {
                    Some(d) => done = d,
                    None => {
                        done = true;
                    }
                }
                check_expect(s, done);
            }
            "ready" => {
                let ids = get_i64s(&s["ids"]);
                let ws = mark_ready(&ids);
                let registered = !ws.is_empty();
                for w in ws {
                    w.wake();
                }
                let woken = flag.0.load(Ordering::SeqCst);
                log(json!({"ev":"ready","ids":ids,"registered":registered,"woken":woken}));
            }
            _ => {}
        }
    }
    if !done && auto {
        // free-running completion: poll while woken, then release everything in id order
        let mut rounds = 0;
        while !done && rounds < 200 {
            rounds += 1;
            if flag.0.load(Ordering::SeqCst) || rounds == 1 {
                match poll_root(&mut fut, &mut flag, false) {
                    Some(d) => done = d,
                    None => done = true,
                }
            } else {
                let pend = arrived_unreleased();
                if pend.is_empty() {
                    break;
                }
                let ids = vec![pend[0]];
                let ws = mark_ready(&ids);
                let registered = !ws.is_empty();
                for w in ws {
                    w.wake();
                }
                let woken = flag.0.load(Ordering::SeqCst);
                log(json!({"ev":"ready","ids":ids,"registered":registered,"woken":woken}));
            }
        }
    }
    if !done {
        log(json!({"ev":"stuck","expect":[],"got":arrived_unreleased(),"next":-1}));
    }
    let r = std::panic::catch_unwind(std::panic::AssertUnwindSafe(move || drop(fut)));
    let _ = r;
    log(json!({"ev":"dropfut"}));
}

async fn quiesce() {
    let mut idle = 0;
    let mut last = event_count();
    let mut rounds = 0;
    while idle < 3 && rounds < 10_000 {
        tokio::task::yield_now().await;
        rounds += 1;
        let now = event_count();
        if now == last {
            idle += 1;
        } else {
            idle = 0;
            last = now;
        }
    }
}

/// Driver for the task-spawning async macros on a current-thread tokio runtime.
pub fn drive_tasks(mk: fn() -> BoxFut, sched: &[Value], auto: bool) {
    let rt = tokio::runtime::Builder::new_current_thread()
        .enable_all()
        .build()
        .unwrap();
    let sched: Vec<Value> = sched.to_vec();
    rt.block_on(async move {
        log(json!({"ev":"create"}));
        let created = std::panic::catch_unwind(mk);
        let mut fut = match created {
            Ok(f) => f,
            Err(e) => {
                log(json!({"ev":"end","res":{"t":"panicked","vals":[]},"msg":panic_message(&*e)}));
                return;
            }
        };
        log(json!({"ev":"created"}));
        let mut flag = Arc::new(Flag(AtomicBool::new(false)));
        let mut done = false;
        for s in &sched {
            if done {
                break;
            }
            match s["a"].as_str().unwrap_or("") {
                "poll" => {
                    let woken = flag.0.load(Ordering::SeqCst);
                    match poll_root(&mut fut, &mut flag, !woken && event_count() > 3) {
                        Some(d) => done = d,
                        None => done = true,
                    }
                    quiesce().await;
                    log(json!({"ev":"quiet","woken":flag.0.load(Ordering::SeqCst)}));
                    check_expect(s, done);
                }
                "ready" => {
                    let ids = get_i64s(&s["ids"]);
                    let ws = mark_ready(&ids);
                    let registered = !ws.is_empty();
                    log(json!({"ev":"ready","ids":ids,"registered":registered,"woken":false}));
                    for w in ws {
                        w.wake();
                    }
                    quiesce().await;
                    log(json!({"ev":"quiet","woken":flag.0.load(Ordering::SeqCst)}));
                    check_expect(s, done);
                }
                _ => {}
            }
        }
        if !done && auto {
            let mut rounds = 0;
            while !done && rounds < 200 {
                rounds += 1;
                if flag.0.load(Ordering::SeqCst) || rounds == 1 {
                    match poll_root(&mut fut, &mut flag, false) {
                        Some(d) => done = d,
                        None => done = true,
                    }
                    quiesce().await;
                    log(json!({"ev":"quiet","woken":flag.0.load(Ordering::SeqCst)}));
                } else {
                    let pend = arrived_unreleased();
                    if pend.is_empty() {
                        break;
                    }
                    let ids = vec![pend[0]];
                    let ws = mark_ready(&ids);
                    let registered = !ws.is_empty();
                    log(json!({"ev":"ready","ids":ids,"registered":registered,"woken":false}));
                    for w in ws {
                        w.wake();
                    }
                    quiesce().await;
                    log(json!({"ev":"quiet","woken":flag.0.load(Ordering::SeqCst)}));
                }
            }
        }
        if !done {
            log(json!({"ev":"stuck","expect":[],"got":arrived_unreleased(),"next":-1}));
        }
        let r = std::panic::catch_unwind(std::panic::AssertUnwindSafe(move || drop(fut)));
        let _ = r;
        // let detached tasks of an aborted step run to their next gate before the run ends
        release_all_silently();
        quiesce().await;
        log(json!({"ev":"dropfut"}));
    });
}

// ---------------------------------------------------------------------------
// main loop shared by generated binaries
// ---------------------------------------------------------------------------

pub enum Prog {
    Sync(fn() -> Value),
    Async(fn() -> LocalBoxFut),
    Tasks(fn() -> BoxFut),
}

/// Reads the run list (one JSON object per line: `{"p":name,"prog":..,"plan":[[k,a]..],
/// "gates":[..],"sched":[..],"opts":{..}}`), executes the runs whose program is in
/// `table`, and appends all events as NDJSON to the output file.
pub fn main_loop(table: &[(&str, Prog)]) {
    use std::io::{BufRead, Write};
    quiet_panics();
    let args: Vec<String> = std::env::args().collect();
    let runs = std::fs::File::open(&args[1]).expect("run list");
    let mut out = std::io::BufWriter::new(std::fs::File::create(&args[2]).expect("out"));
    let idx: HashMap<&str, &Prog> = table.iter().map(|(n, p)| (*n, p)).collect();
    let mut nrun = 0u64;
    for line in std::io::BufReader::new(runs).lines() {
        let line = line.unwrap();
        if line.trim().is_empty() {
            continue;
        }
        let r: Value = serde_json::from_str(&line).expect("run json");
        let name = r["p"].as_str().unwrap_or("");
        let prog = match idx.get(name) {
            Some(p) => *p,
            None => continue,
        };
        nrun += 1;
        let plan: Vec<(String, String)> = r["plan"]
            .as_array()
            .map(|a| {
                a.iter()
                    .map(|e| {
                        let t = e["t"].as_str().unwrap();
                        let key = match t {
                            "hx" | "hc" | "hf" | "jn" => t.to_string(),
                            _ => format!("{}{}", t, e["id"].as_i64().unwrap()),
                        };
                        (key, e["a"].as_str().unwrap().to_string())
                    })
                    .collect()
            })
            .unwrap_or_default();
        let gates = get_i64s(&r["gates"]);
        let mut header = Map::new();
        header.insert("p".into(), json!(name));
        header.insert("rid".into(), r.get("rid").cloned().unwrap_or(json!(nrun)));
        header.insert("prog".into(), r["prog"].clone());
        header.insert("plan".into(), r["plan"].clone());
        header.insert("gates".into(), r["gates"].clone());
        header.insert("count".into(), json!(r["count"].as_bool().unwrap_or(false)));
        header.insert("sched".into(), r["sched"].clone());
        header.insert("auto_release".into(), json!(r["auto_release"].as_bool().unwrap_or(false)));
        let rs = RunSpec { header: Value::Object(header), plan, gates };
        begin_run(&rs);
        let sched: Vec<Value> = r["sched"].as_array().cloned().unwrap_or_default();
        let named = r["prog"]["caller"].as_str().unwrap_or("named") == "named";
        let grace = r["grace_ms"].as_u64().unwrap_or(0);
        let auto = r["auto"].as_bool().unwrap_or(true);
        let count = r["count"].as_bool().unwrap_or(false);
        match prog {
            Prog::Sync(f) => drive_sync(*f, named, &sched, grace, count, r["auto_release"].as_bool().unwrap_or(false),
                                        &get_i64s(&r["hold_until_end"])),
            Prog::Async(f) => drive_async(*f, &sched, auto),
            Prog::Tasks(f) => drive_tasks(*f, &sched, auto),
        }
        for e in end_run() {
            writeln!(out, "{}", e).unwrap();
        }
    }
    out.flush().unwrap();
}
